// Native differential checks against naive reference models, using only the public API of the crate.
// Purpose: when a deductive check reports a failed obligation, tools/replayer.py copies this file into a SCRATCH copy of the
// tree under test (tests/replay.rs) and runs the tests of the property; a failing test is a concrete failing input that is
// attached to the replay file.  These tests never decide anything: a violation is reported whether or not they find an input.
// Test names start with the property id (c01_, c02_, ...).  Everything is deterministic in VERIF_SEED.

use simple_sds::bit_vector::BitVector;
use simple_sds::int_vector::IntVector;
use simple_sds::ops::{Access, BitVec, Pack, PredSucc, Pop, Push, Rank, Resize, Select, SelectZero, Vector, VectorIndex};
use simple_sds::raw_vector::{AccessRaw, PopRaw, PushRaw, RawVector};
use simple_sds::rl_vector::{RLBuilder, RLVector};
use simple_sds::serialize::Serialize;
use simple_sds::sparse_vector::{SparseBuilder, SparseVector};
use simple_sds::wavelet_matrix::WaveletMatrix;
use simple_sds::bits;
use std::convert::TryFrom;
use std::iter::FromIterator;

struct Rng(u64);
impl Rng {
    fn new(salt: u64) -> Rng {
        let seed = std::env::var("VERIF_SEED").ok().and_then(|s| s.parse::<u64>().ok()).unwrap_or(0);
        Rng(0x9E37_79B9_7F4A_7C15 ^ seed.wrapping_mul(0xD129_0F3B_5A5F_A1E7) ^ salt.wrapping_mul(0xA24B_AED4_963E_E407) | 1)
    }
    fn next(&mut self) -> u64 { let mut x = self.0; x ^= x << 13; x ^= x >> 7; x ^= x << 17; self.0 = x; x }
    fn below(&mut self, n: usize) -> usize { if n == 0 { 0 } else { (self.next() % (n as u64)) as usize } }
}

// interesting lengths: around word, rank-block and select-superblock boundaries
const LENGTHS: [usize; 16] = [0, 1, 2, 63, 64, 65, 127, 128, 511, 512, 513, 1000, 4095, 4096, 4097, 9000];

fn random_bits(rng: &mut Rng, len: usize, density_per_1000: usize) -> Vec<bool> {
    (0..len).map(|_| rng.below(1000) < density_per_1000).collect()
}

fn ref_rank(bits: &[bool], i: usize) -> usize { bits.iter().take(i).filter(|b| **b).count() }
fn ref_select(bits: &[bool], r: usize) -> Option<usize> { bits.iter().enumerate().filter(|(_, b)| **b).nth(r).map(|(i, _)| i) }
fn ref_select_zero(bits: &[bool], r: usize) -> Option<usize> { bits.iter().enumerate().filter(|(_, b)| !**b).nth(r).map(|(i, _)| i) }
fn ref_pred(bits: &[bool], v: usize) -> Option<(usize, usize)> {
    if bits.is_empty() { return None; }
    let top = std::cmp::min(v, bits.len() - 1);
    (0..=top).rev().find(|i| bits[*i]).map(|i| (ref_rank(bits, i), i))
}
fn ref_succ(bits: &[bool], v: usize) -> Option<(usize, usize)> { (v..bits.len()).find(|i| bits[*i]).map(|i| (ref_rank(bits, i), i)) }

fn check_bitvec_queries<'a, T>(name: &str, bv: &'a T, bits: &[bool], rng: &mut Rng, zero_queries: bool)
where T: BitVec<'a> + Rank<'a> + Select<'a> + SelectZero<'a> + PredSucc<'a>,
      <T as Select<'a>>::OneIter: Iterator<Item = (usize, usize)>, <T as PredSucc<'a>>::OneIter: Iterator<Item = (usize, usize)>,
      <T as SelectZero<'a>>::ZeroIter: Iterator<Item = (usize, usize)>, <T as BitVec<'a>>::Iter: Iterator<Item = bool>
{
    let n = bits.len();
    let ones = ref_rank(bits, n);
    assert_eq!(bv.len(), n, "{}: len", name);
    assert_eq!(bv.count_ones(), ones, "{}: count_ones", name);
    assert_eq!(bv.count_zeros(), n - ones, "{}: count_zeros", name);
    let mut probes: Vec<usize> = vec![0, 1, n / 2, n.saturating_sub(1), n, n + 1, usize::MAX];
    for _ in 0..40 { probes.push(rng.below(n + 2)); }
    for &i in probes.iter() {
        if i < n { assert_eq!(bv.get(i), bits[i], "{}: get({}) len {}", name, i, n); }
        assert_eq!(bv.rank(i), ref_rank(bits, std::cmp::min(i, n)), "{}: rank({}) len {}", name, i, n);
        assert_eq!(bv.select(i), ref_select(bits, i), "{}: select({}) len {} ones {}", name, i, n, ones);
        assert_eq!(bv.select_iter(i).next(), ref_select(bits, i).map(|p| (i, p)), "{}: select_iter({}).next()", name, i);
        assert_eq!(bv.predecessor(i).next(), ref_pred(bits, i), "{}: predecessor({}) len {}", name, i, n);
        assert_eq!(bv.successor(i).next(), ref_succ(bits, i), "{}: successor({}) len {}", name, i, n);
        if zero_queries {
            if i <= n { assert_eq!(bv.rank_zero(i), i - ref_rank(bits, i), "{}: rank_zero({})", name, i); }
            assert_eq!(bv.select_zero(i), ref_select_zero(bits, i), "{}: select_zero({}) len {}", name, i, n);
            assert_eq!(bv.select_zero_iter(i).next(), ref_select_zero(bits, i).map(|p| (i, p)), "{}: select_zero_iter({}).next()", name, i);
        }
    }
    let all: Vec<(usize, usize)> = bv.one_iter().collect();
    let expect: Vec<(usize, usize)> = bits.iter().enumerate().filter(|(_, b)| **b).map(|(i, _)| i).enumerate().collect();
    assert_eq!(all, expect, "{}: one_iter len {}", name, n);
    if zero_queries {
        let zeros: Vec<(usize, usize)> = bv.zero_iter().collect();
        let expect0: Vec<(usize, usize)> = bits.iter().enumerate().filter(|(_, b)| !**b).map(|(i, _)| i).enumerate().collect();
        assert_eq!(zeros, expect0, "{}: zero_iter len {}", name, n);
    }
    let it: Vec<bool> = bv.iter().collect();
    assert_eq!(it, bits.to_vec(), "{}: iter len {}", name, n);
}

fn plain(bits: &[bool]) -> BitVector {
    let mut bv = BitVector::from_iter(bits.iter().cloned());
    bv.enable_rank(); bv.enable_select(); bv.enable_select_zero();
    bv
}

fn sparse(bits: &[bool]) -> SparseVector {
    let ones = bits.iter().filter(|b| **b).count();
    let mut b = SparseBuilder::new(bits.len(), ones).unwrap();
    for (i, v) in bits.iter().enumerate() { if *v { b.set(i); } }
    SparseVector::try_from(b).unwrap()
}

fn runs_of(bits: &[bool]) -> Vec<(usize, usize)> {
    let mut runs = Vec::new();
    let mut i = 0;
    while i < bits.len() {
        if bits[i] { let s = i; while i < bits.len() && bits[i] { i += 1; } runs.push((s, i - s)); } else { i += 1; }
    }
    runs
}

fn rl(bits: &[bool]) -> RLVector {
    let mut b = RLBuilder::new();
    for (s, l) in runs_of(bits) { b.try_set(s, l).unwrap(); }
    b.set_len(bits.len());
    RLVector::from(b)
}

#[test]
fn c01_plain_bitvector_queries() {
    let mut rng = Rng::new(1);
    for &n in LENGTHS.iter() { for &d in [0usize, 3, 500, 997, 1000].iter() {
        let bits = random_bits(&mut rng, n, d);
        check_bitvec_queries("BitVector", &plain(&bits), &bits, &mut rng, true);
    } }
    // one long superblock layout: 4096+ ones spread over a long vector, then a dense tail
    let mut bits = vec![false; 300_000];
    for i in 0..5000 { bits[i * 59] = true; }
    for i in 299_000..300_000 { bits[i] = true; }
    check_bitvec_queries("BitVector(long)", &plain(&bits), &bits, &mut rng, true);
}

#[test]
fn c02_sparse_vector_queries() {
    let mut rng = Rng::new(2);
    for &n in LENGTHS.iter() { for &d in [0usize, 3, 100, 500, 1000].iter() {
        let bits = random_bits(&mut rng, n, d);
        check_bitvec_queries("SparseVector", &sparse(&bits), &bits, &mut rng, true);
    } }
    let mut bits = vec![false; 200_000];
    for i in 0..9000 { bits[i * 21 + (i % 7)] = true; }
    check_bitvec_queries("SparseVector(large)", &sparse(&bits), &bits, &mut rng, true);
    // huge universes with few ones (large low width)
    for &(universe, ones) in [(usize::MAX, 1usize), (usize::MAX - 1, 3), (1usize << 63, 2), ((1usize << 40) + 5, 4)].iter() {
        let mut b = SparseBuilder::new(universe, ones).unwrap();
        let mut vals = Vec::new();
        for k in 0..ones { let v = (universe / ones) * k + (universe / ones) / 2; b.set(v); vals.push(v); }
        let sv = SparseVector::try_from(b).unwrap();
        assert_eq!(sv.len(), universe); assert_eq!(sv.count_ones(), ones);
        for (k, v) in vals.iter().enumerate() {
            assert!(sv.get(*v), "huge get({})", v); assert_eq!(sv.select(k), Some(*v)); assert_eq!(sv.rank(*v), k); assert_eq!(sv.rank(*v + 1), k + 1);
            assert_eq!(sv.predecessor(*v).next(), Some((k, *v))); assert_eq!(sv.successor(*v).next(), Some((k, *v)));
        }
        assert_eq!(sv.select(ones), None); assert_eq!(sv.rank(usize::MAX), if universe == usize::MAX { vals.iter().filter(|v| **v < usize::MAX).count() } else { ones });
    }
}

#[test]
fn c03_run_length_vector_queries() {
    let mut rng = Rng::new(3);
    for &n in LENGTHS.iter() { for &d in [0usize, 30, 500, 970, 1000].iter() {
        let bits = random_bits(&mut rng, n, d);
        let v = rl(&bits);
        check_bitvec_queries("RLVector", &v, &bits, &mut rng, true);
        let runs: Vec<(usize, usize)> = v.run_iter().collect();
        assert_eq!(runs, runs_of(&bits), "run_iter len {}", n);
    } }
    // many blocks: more than 8 and more than 16 blocks, short and long codes
    let mut bits = vec![false; 60_000];
    let mut p = 0; let mut k = 0;
    while p + 40 < bits.len() { let l = 1 + (k % 5); for i in 0..l { bits[p + i] = true; } p += l + 1 + (k * 7) % 23; k += 1; }
    let v = rl(&bits);
    check_bitvec_queries("RLVector(blocks)", &v, &bits, &mut rng, true);
    // huge runs and gaps (multi-unit codes, two blocks)
    let (s1, l1, g, l2) = (5usize, 1usize << 58, 1usize << 59, 1usize << 57);
    let mut b = RLBuilder::new();
    b.try_set(s1, l1).unwrap(); b.try_set(s1 + l1 + g, l2).unwrap(); b.set_len(s1 + l1 + g + l2 + 9);
    let v = RLVector::from(b);
    assert_eq!(v.count_ones(), l1 + l2);
    assert!(v.get(s1) && v.get(s1 + l1 - 1) && !v.get(s1 + l1) && v.get(s1 + l1 + g) && !v.get(s1 + l1 + g + l2));
    assert_eq!(v.rank(s1 + l1 + g + 3), l1 + 3); assert_eq!(v.select(l1 + 3), Some(s1 + l1 + g + 3)); assert_eq!(v.select_zero(s1 + 2), Some(s1 + l1 + 2));
}

// a first run at position 0 that fills block 0 alone (code lengths 1 + 22, then 21 + 21 for the next run), then eight more blocks:
// blocks 0 and 1 both have 0 unset bits before them (finding F13)
#[test]
fn c03_first_run_fills_block() {
    let (l0, g, l1) = ((1usize << 63) + 1, 1usize << 60, (1usize << 60) + 1);
    let mut b = RLBuilder::new();
    b.try_set(0, l0).unwrap(); b.try_set(l0 + g, l1).unwrap();
    let mut pos = l0 + g + l1;
    let mut small: Vec<usize> = Vec::new();
    for _ in 0..(32 * 9) { pos += 1; b.try_set(pos, 1).unwrap(); small.push(pos); pos += 1; }
    b.set_len(pos + 10);
    let v = RLVector::from(b);
    assert_eq!(v.len(), pos + 10); assert_eq!(v.count_ones(), l0 + l1 + small.len());
    assert_eq!(v.select_zero(0), Some(l0)); assert_eq!(v.select_zero(g), Some(l0 + g + l1)); assert_eq!(v.rank(l0), l0); assert_eq!(v.select(l0), Some(l0 + g));
    assert!(v.get(0) && v.get(l0 - 1) && !v.get(l0) && v.get(l0 + g));
    for (k, p) in small.iter().enumerate() {
        assert!(v.get(*p) && !v.get(*p - 1)); assert_eq!(v.rank(*p), l0 + l1 + k); assert_eq!(v.select(l0 + l1 + k), Some(*p)); assert_eq!(v.select_zero(g + k), Some(*p - 1));
    }
    let runs: Vec<(usize, usize)> = v.run_iter().collect();
    assert_eq!(runs.len(), 2 + small.len()); assert_eq!(runs[0], (0, l0)); assert_eq!(runs[1], (l0 + g, l1));
}

#[test]
fn c04_wavelet_matrix() {
    let mut rng = Rng::new(4);
    for &n in [0usize, 1, 2, 63, 64, 65, 500, 3000].iter() { for &sigma in [1u64, 2, 3, 17, 256, 70000].iter() {
        let v: Vec<u64> = (0..n).map(|_| { let x = rng.next() % sigma; if sigma > 3 && x % 5 == 1 { x + 1 } else { x } }).collect();
        let wm = WaveletMatrix::from(v.clone());
        assert_eq!(wm.len(), n);
        let maxv = v.iter().cloned().max().unwrap_or(0);
        assert_eq!(wm.width(), bits::bit_len(maxv), "width for max {}", maxv);
        for i in 0..n { assert_eq!(wm.get(i), v[i], "get({})", i); }
        let mut vals: Vec<u64> = vec![0, 1, maxv, maxv + 1, u64::MAX];
        for _ in 0..10 { vals.push(rng.next() % (maxv + 2)); }
        for &x in vals.iter() {
            let occ: Vec<usize> = (0..n).filter(|i| v[*i] == x).collect();
            assert_eq!(wm.contains(x), !occ.is_empty(), "contains({})", x);
            for &i in [0usize, 1, n / 2, n, n + 1, usize::MAX].iter() {
                assert_eq!(wm.rank(i, x), occ.iter().filter(|p| **p < i).count(), "rank({}, {})", i, x);
            }
            for r in 0..occ.len() + 2 { assert_eq!(wm.select(r, x), occ.get(r).cloned(), "select({}, {})", r, x); }
            assert_eq!(wm.select(usize::MAX, x), None);
            let it: Vec<(usize, usize)> = wm.value_iter(x).collect();
            assert_eq!(it, occ.iter().cloned().enumerate().collect::<Vec<_>>(), "value_iter({})", x);
            for &i in [0usize, n / 2, n, usize::MAX].iter() {
                let p = occ.iter().cloned().enumerate().filter(|(_, p)| *p <= i).last();
                assert_eq!(wm.predecessor(i, x).next(), p, "predecessor({}, {})", i, x);
                let s = occ.iter().cloned().enumerate().find(|(_, p)| *p >= i);
                assert_eq!(wm.successor(i, x).next(), s, "successor({}, {})", i, x);
            }
        }
        for i in 0..n { let r = (0..i).filter(|j| v[*j] == v[i]).count(); assert_eq!(wm.inverse_select(i), Some((r, v[i]))); }
        assert_eq!(wm.inverse_select(n), None);
    } }
}

#[test]
fn c05_raw_and_int_vectors_as_sequences() {
    let mut rng = Rng::new(5);
    for width in [1usize, 2, 7, 31, 32, 33, 63, 64].iter().cloned() {
        let mask = if width == 64 { u64::MAX } else { (1u64 << width) - 1 };
        let mut v = IntVector::new(width).unwrap();
        let mut m: Vec<u64> = Vec::new();
        for step in 0..600 {
            match rng.below(8) {
                0 | 1 | 2 => { let x = rng.next(); v.push(x); m.push(x & mask); }
                3 => { assert_eq!(v.pop(), m.pop(), "pop width {} step {}", width, step); }
                4 => { if !m.is_empty() { let i = rng.below(m.len()); let x = rng.next(); v.set(i, x); m[i] = x & mask; } }
                5 => { let nl = rng.below(m.len() + 20); let x = rng.next(); v.resize(nl, x); m.resize(nl, x & mask); }
                6 => { v.reserve(rng.below(100)); }
                _ => { if rng.below(20) == 0 { v.clear(); m.clear(); } }
            }
            assert_eq!(v.len(), m.len(), "len width {} step {}", width, step);
            if !m.is_empty() { let i = rng.below(m.len()); assert_eq!(v.get(i), m[i], "get width {} step {}", width, step); }
        }
        let all: Vec<u64> = v.iter().collect();
        assert_eq!(all, m, "content width {}", width);
        let fresh = { let mut f = IntVector::with_capacity(m.len(), width).unwrap(); for x in m.iter() { f.push(*x); } f };
        assert!(v == fresh, "history independence width {}", width);
        let mut a = Vec::new(); v.serialize(&mut a).unwrap(); let mut b = Vec::new(); fresh.serialize(&mut b).unwrap();
        assert_eq!(a, b, "serialization depends on history, width {}", width);
        let mut p = v.clone(); p.pack();
        let pv: Vec<u64> = p.iter().collect(); assert_eq!(pv, m, "pack content");
        if !m.is_empty() { assert_eq!(p.width(), bits::bit_len(m.iter().cloned().max().unwrap_or(0)), "pack width"); }
    }
    let mut r = RawVector::new(); let mut m: Vec<bool> = Vec::new();
    for step in 0..3000 {
        match rng.below(6) {
            0 | 1 => { let b = rng.below(2) == 1; r.push_bit(b); m.push(b); }
            2 => { let w = rng.below(65); let x = rng.next(); unsafe { r.push_int(x, w); } for j in 0..w { m.push((x >> j) & 1 == 1); } }
            3 => { assert_eq!(r.pop_bit(), m.pop(), "pop_bit step {}", step); }
            4 => { let w = rng.below(65); if m.len() >= w { let got = unsafe { r.pop_int(w) }; let mut x = 0u64; for j in 0..w { if m[m.len() - w + j] { x |= 1 << j; } } m.truncate(m.len() - w); assert_eq!(got, Some(x), "pop_int({}) step {}", w, step); } }
            _ => { let nl = rng.below(m.len() + 70); let b = rng.below(2) == 1; r.resize(nl, b); m.resize(nl, b); }
        }
        assert_eq!(r.len(), m.len());
        assert_eq!(r.count_ones(), m.iter().filter(|b| **b).count(), "count_ones step {}", step);
        if !m.is_empty() { let i = rng.below(m.len()); assert_eq!(r.bit(i), m[i], "bit({}) step {}", i, step); }
    }
}

fn roundtrip<T: Serialize + PartialEq + std::fmt::Debug>(x: &T, what: &str) {
    let mut buf: Vec<u8> = Vec::new();
    x.serialize(&mut buf).unwrap();
    assert_eq!(buf.len(), x.size_in_bytes(), "{}: size_in_bytes", what);
    assert_eq!(buf.len(), 8 * x.size_in_elements(), "{}: size_in_elements", what);
    let mut two = buf.clone(); two.extend_from_slice(&buf);
    let mut cur = std::io::Cursor::new(&two);
    let a = T::load(&mut cur).unwrap(); let b = T::load(&mut cur).unwrap();
    assert!(&a == x && &b == x, "{}: round trip", what);
    assert_eq!(cur.position() as usize, two.len(), "{}: bytes consumed", what);
    // every truncation is refused (C14)
    let step = std::cmp::max(1, buf.len() / 64);
    let mut k = 0;
    while k < buf.len() { let mut c = std::io::Cursor::new(&buf[..k]); assert!(T::load(&mut c).is_err(), "{}: prefix of {} / {} bytes accepted", what, k, buf.len()); k += step; }
    let mut c = std::io::Cursor::new(&buf[..buf.len() - 1]); assert!(T::load(&mut c).is_err(), "{}: all but one byte accepted", what);
}

#[test]
fn c06_c14_roundtrip_sizes_truncation() {
    let mut rng = Rng::new(6);
    roundtrip(&0u64, "u64"); roundtrip(&usize::MAX, "usize"); roundtrip(&(3u64, u64::MAX), "pair");
    roundtrip(&Vec::<u64>::new(), "empty vec"); roundtrip(&vec![1u64, 2, 3], "vec"); roundtrip(&vec![(1u64, 2u64)], "vec of pairs");
    roundtrip(&vec![1u8, 2, 3, 4, 5, 6, 7, 8, 9], "bytes"); roundtrip(&String::from("hello, world"), "string");
    roundtrip(&Some(vec![7u64; 5]), "some"); roundtrip(&Option::<Vec<u64>>::None, "none");
    for &n in [0usize, 1, 64, 65, 513, 5000].iter() {
        let bits = random_bits(&mut rng, n, 400);
        let raw = { let mut r = RawVector::new(); for b in bits.iter() { r.push_bit(*b); } r };
        roundtrip(&raw, "RawVector");
        for mask in 0..8u32 {
            let mut bv = BitVector::from_iter(bits.iter().cloned());
            if mask & 1 != 0 { bv.enable_rank(); } if mask & 2 != 0 { bv.enable_select(); } if mask & 4 != 0 { bv.enable_select_zero(); }
            roundtrip(&bv, "BitVector");
            let mut buf = Vec::new(); bv.serialize(&mut buf).unwrap();
            let l = BitVector::load(&mut std::io::Cursor::new(&buf)).unwrap();
            assert_eq!((l.supports_rank(), l.supports_select(), l.supports_select_zero()), (mask & 1 != 0, mask & 2 != 0, mask & 4 != 0), "C19: support subset");
        }
        roundtrip(&sparse(&bits), "SparseVector"); roundtrip(&rl(&bits), "RLVector");
        for w in [1usize, 13, 64].iter() { let mut iv = IntVector::new(*w).unwrap(); for _ in 0..n { iv.push(rng.next()); } roundtrip(&iv, "IntVector"); }
    }
    let v: Vec<u64> = (0..700).map(|i| (i * 7 % 23) as u64).collect();
    roundtrip(&WaveletMatrix::from(v), "WaveletMatrix");
}

#[test]
fn c09_extreme_arguments() {
    let bits = vec![true, false, true, true, false, false, true];
    let bv = plain(&bits); let sv = sparse(&bits); let rv = rl(&bits);
    for big in [7usize, 8, 1 << 40, usize::MAX - 1, usize::MAX].iter().cloned() {
        assert_eq!(bv.rank(big), 4); assert_eq!(sv.rank(big), 4); assert_eq!(rv.rank(big), 4);
        assert_eq!(bv.select(big), None); assert_eq!(sv.select(big), None); assert_eq!(rv.select(big), None);
        assert_eq!(bv.select_zero(big), None); assert_eq!(sv.select_zero(big), None); assert_eq!(rv.select_zero(big), None);
        assert_eq!(bv.predecessor(big).next(), Some((3, 6))); assert_eq!(sv.predecessor(big).next(), Some((3, 6))); assert_eq!(rv.predecessor(big).next(), Some((3, 6)));
        assert_eq!(bv.successor(big).next(), None); assert_eq!(sv.successor(big).next(), None); assert_eq!(rv.successor(big).next(), None);
        assert_eq!(bv.one_iter().nth(big), None); assert_eq!(bv.iter().nth(big), None); assert_eq!(bv.iter().nth_back(big), None);
        let mut it = bv.one_iter(); it.next(); assert_eq!(it.nth(big), None);
        let mut it = bv.iter(); it.next(); assert_eq!(it.nth(big), None); assert_eq!(it.next(), None);
        assert_eq!(bv.select_iter(big).next(), None); assert_eq!(sv.select_iter(big).next(), None); assert_eq!(rv.select_iter(big).next(), None);
        assert_eq!(rv.select_zero_iter(big).len(), 0); assert_eq!(sv.select_zero_iter(big).len(), 0);
    }
    assert!(IntVector::new(0).is_err() && IntVector::new(65).is_err() && IntVector::with_len(3, 0, 0).is_err());
}

#[test]
fn c10_iterators_under_interleaving() {
    let mut rng = Rng::new(10);
    for &n in [0usize, 1, 5, 64, 130].iter() {
        let bits = random_bits(&mut rng, n, 500);
        let ones: Vec<(usize, usize)> = bits.iter().enumerate().filter(|(_, b)| **b).map(|(i, _)| i).enumerate().collect();
        let bv = plain(&bits); let sv = sparse(&bits);
        for _ in 0..30 {
            // bits, both ends
            let mut m: std::collections::VecDeque<bool> = bits.iter().cloned().collect();
            let mut a = bv.iter(); let mut b = sv.iter();
            for _ in 0..(n + 3) {
                match rng.below(4) {
                    0 => { let e = m.pop_front(); assert_eq!(a.next(), e, "BitVector iter next"); assert_eq!(b.next(), e, "SparseVector iter next"); }
                    1 => { let e = m.pop_back(); assert_eq!(a.next_back(), e, "BitVector iter next_back"); assert_eq!(b.next_back(), e, "SparseVector iter next_back"); }
                    2 => { let k = rng.below(4); for _ in 0..k { m.pop_front(); } let e = m.pop_front(); assert_eq!(a.nth(k), e, "BitVector iter nth"); assert_eq!(b.nth(k), e, "SparseVector iter nth"); }
                    _ => { assert_eq!(a.len(), m.len(), "BitVector iter len"); assert_eq!(b.len(), m.len(), "SparseVector iter len"); }
                }
            }
            // set bits, both ends
            let mut m: std::collections::VecDeque<(usize, usize)> = ones.iter().cloned().collect();
            let mut a = bv.one_iter(); let mut b = sv.one_iter();
            for _ in 0..(ones.len() + 3) {
                match rng.below(4) {
                    0 => { let e = m.pop_front(); assert_eq!(a.next(), e, "BitVector one_iter next"); assert_eq!(b.next(), e, "SparseVector one_iter next"); }
                    1 => { let e = m.pop_back(); assert_eq!(a.next_back(), e, "BitVector one_iter next_back"); assert_eq!(b.next_back(), e, "SparseVector one_iter next_back"); }
                    2 => { let k = rng.below(3); for _ in 0..k { m.pop_front(); } let e = m.pop_front(); assert_eq!(a.nth(k), e, "BitVector one_iter nth"); let mut eb = None; for _ in 0..=k { eb = b.next(); } assert_eq!(eb, e, "SparseVector one_iter"); }
                    _ => { assert_eq!(a.len(), m.len(), "one_iter len"); assert_eq!(b.len(), m.len(), "sparse one_iter len"); }
                }
            }
        }
    }
}

#[test]
fn c11_conversions_are_canonical() {
    let mut rng = Rng::new(11);
    for &n in [0usize, 1, 64, 65, 700, 5000].iter() { for &d in [0usize, 20, 500, 1000].iter() {
        let bits = random_bits(&mut rng, n, d);
        let b0 = BitVector::from_iter(bits.iter().cloned()); let s0 = sparse(&bits); let r0 = rl(&bits);
        let mut plain_targets = vec![BitVector::copy_bit_vec(&s0), BitVector::copy_bit_vec(&r0), BitVector::copy_bit_vec(&b0), BitVector::from(s0.clone()), BitVector::from(r0.clone())];
        for t in plain_targets.drain(..) { assert!(t == b0, "-> BitVector is not canonical (len {})", n); assert_eq!(t.count_ones(), bits.iter().filter(|b| **b).count()); }
        for t in vec![SparseVector::copy_bit_vec(&b0), SparseVector::copy_bit_vec(&r0), SparseVector::from(b0.clone()), SparseVector::from(r0.clone())] { assert!(t == s0, "-> SparseVector is not canonical (len {})", n); }
        for t in vec![RLVector::copy_bit_vec(&b0), RLVector::copy_bit_vec(&s0), RLVector::from(b0.clone()), RLVector::from(s0.clone())] { assert!(t == r0, "-> RLVector is not canonical (len {})", n); }
        // builder call decompositions: bit by bit vs whole runs
        let mut bb = RLBuilder::new(); for (i, b) in bits.iter().enumerate() { if *b { bb.try_set(i, 1).unwrap(); } } bb.set_len(n);
        assert!(RLVector::from(bb) == r0, "bit-at-a-time RLVector differs (len {})", n);
    } }
}

#[test]
fn c12_buffered_writers() {
    use simple_sds::int_vector::IntVectorWriter;
    use simple_sds::raw_vector::RawVectorWriter;
    let mut rng = Rng::new(12);
    for &buf_len in [0usize, 1, 63, 64, 65, 1000, 4096].iter() {
        let name = simple_sds::serialize::temp_file_name("verif-replay-raw");
        let mut header: Vec<u64> = Vec::new();
        let mut w = RawVectorWriter::with_buf_len(&name, &mut header, buf_len).unwrap();
        let mut r = RawVector::new();
        for _ in 0..700 { if rng.below(2) == 0 { let b = rng.below(2) == 1; w.push_bit(b); r.push_bit(b); } else { let wd = rng.below(65); let x = rng.next(); unsafe { w.push_int(x, wd); r.push_int(x, wd); } } }
        assert_eq!(w.len(), r.len()); w.close().unwrap(); w.close().unwrap();
        let mut expect = Vec::new(); r.serialize(&mut expect).unwrap();
        assert_eq!(std::fs::read(&name).unwrap(), expect, "RawVectorWriter file, buf_len {}", buf_len);
        std::fs::remove_file(&name).unwrap();
        for &width in [1usize, 9, 64].iter() {
            let name = simple_sds::serialize::temp_file_name("verif-replay-int");
            let mut w = IntVectorWriter::with_buf_len(&name, width, buf_len).unwrap();
            let mut v = IntVector::new(width).unwrap();
            for _ in 0..300 { let x = rng.next(); w.push(x); v.push(x); }
            assert_eq!(w.len(), v.len()); drop(w);
            let mut expect = Vec::new(); v.serialize(&mut expect).unwrap();
            assert_eq!(std::fs::read(&name).unwrap(), expect, "IntVectorWriter file, width {} buf_len {}", width, buf_len);
            std::fs::remove_file(&name).unwrap();
        }
    }
}

#[test]
fn c15_multiset_sparse_vectors() {
    let mut rng = Rng::new(15);
    for &n in [1usize, 2, 8, 100, 3000].iter() { for &m in [0usize, 1, 5, 200, 4000].iter() {
        let mut vals: Vec<usize> = (0..m).map(|_| rng.below(n)).collect(); vals.sort();
        let sv = if vals.is_empty() { SparseVector::try_from_iter(vals.iter().cloned()).unwrap() } else {
            let mut b = SparseBuilder::multiset(n, m); for v in vals.iter() { b.try_set(*v).unwrap(); } SparseVector::try_from(b).unwrap() };
        if vals.is_empty() { continue; }
        assert_eq!(sv.len(), n); assert_eq!(sv.count_ones(), m);
        assert_eq!(sv.is_multiset(), vals.windows(2).any(|w| w[0] == w[1]));
        let all: Vec<(usize, usize)> = sv.one_iter().collect(); assert_eq!(all, vals.iter().cloned().enumerate().collect::<Vec<_>>(), "multiset one_iter");
        let back: Vec<(usize, usize)> = sv.one_iter().rev().collect(); assert_eq!(back, vals.iter().cloned().enumerate().rev().collect::<Vec<_>>(), "multiset one_iter rev");
        for _ in 0..5 {
            let mut dq: std::collections::VecDeque<(usize, usize)> = vals.iter().cloned().enumerate().collect();
            let mut it = sv.one_iter();
            for _ in 0..(m + 2) { if rng.below(3) == 0 { assert_eq!(it.next_back(), dq.pop_back(), "multiset one_iter next_back (interleaved)"); } else { assert_eq!(it.next(), dq.pop_front(), "multiset one_iter next (interleaved)"); } }
        }
        for i in 0..std::cmp::min(n, 200) {
            assert_eq!(sv.get(i), vals.contains(&i), "multiset get({})", i);
            assert_eq!(sv.rank(i), vals.iter().filter(|v| **v < i).count(), "multiset rank({})", i);
            assert_eq!(sv.successor(i).next(), vals.iter().cloned().enumerate().find(|(_, v)| *v >= i), "multiset successor({})", i);
            assert_eq!(sv.predecessor(i).next(), vals.iter().cloned().enumerate().filter(|(_, v)| *v <= i).last(), "multiset predecessor({})", i);
        }
        for r in 0..std::cmp::min(m, 300) { assert_eq!(sv.select(r), Some(vals[r]), "multiset select({})", r); }
        let fwd: Vec<bool> = sv.iter().collect(); let mut bwd: Vec<bool> = sv.iter().rev().collect(); bwd.reverse();
        let expect: Vec<bool> = (0..n).map(|i| vals.contains(&i)).collect();
        assert_eq!(fwd, expect, "multiset iter"); assert_eq!(bwd, expect, "multiset iter rev");
        let t = SparseVector::try_from_iter(vals.iter().cloned()).unwrap();
        let tv: Vec<(usize, usize)> = t.one_iter().collect(); assert_eq!(tv, all, "try_from_iter");
    } }
}

#[test]
fn c16_builders_reject_without_side_effects() {
    let mut b = SparseBuilder::new(100, 3).unwrap();
    b.set(10);
    for bad in [10usize, 5, 100, usize::MAX].iter() { assert!(b.try_set(*bad).is_err()); assert_eq!((b.len(), b.next_index()), (1, 11)); }
    b.set(11); b.set(99); assert!(b.try_set(99).is_err() && b.is_full());
    let sv = SparseVector::try_from(b).unwrap(); assert_eq!(sv.one_iter().map(|(_, v)| v).collect::<Vec<_>>(), vec![10, 11, 99]);
    assert!(SparseBuilder::new(3, 4).is_err());
    let mut r = RLBuilder::new();
    r.try_set(10, 5).unwrap();
    for (s, l) in [(3usize, 2usize), (14, 1), (usize::MAX, 2), (usize::MAX - 1, 5)].iter() { assert!(r.try_set(*s, *l).is_err(), "RLBuilder accepted ({}, {})", s, l); assert_eq!((r.len(), r.count_ones()), (15, 5)); }
    r.try_set(15, 0).unwrap(); assert_eq!((r.len(), r.count_ones()), (15, 5));
    r.set_len(20); r.try_set(20, 3).unwrap(); r.set_len(10);
    let v = RLVector::from(r); assert_eq!(v.len(), 23); assert_eq!(v.run_iter().collect::<Vec<_>>(), vec![(10, 5), (20, 3)]);
}

#[test]
fn c17_bit_primitives() {
    let mut rng = Rng::new(17);
    for n in 0..=64usize {
        let lo = if n == 64 { u64::MAX } else { (1u64 << n) - 1 };
        assert_eq!(bits::low_set(n), lo); assert_eq!(bits::high_set(n), if n == 0 { 0 } else { !(if n == 64 { 0 } else { u64::MAX >> n }) });
    }
    for _ in 0..2000 {
        let x = rng.next() >> rng.below(64);
        assert_eq!(bits::bit_len(x), std::cmp::max(1, 64 - x.leading_zeros() as usize));
        if x != 0 { let r = rng.below(x.count_ones() as usize); let p = unsafe { bits::select(x, r) }; assert!((x >> p) & 1 == 1 && (x & bits::low_set(p)).count_ones() as usize == r, "select({:#x}, {})", x, r); }
        let mut a = vec![rng.next(), rng.next(), rng.next(), rng.next()]; let orig = a.clone();
        let w = 1 + rng.below(64); let off = rng.below(256 - w); let v = rng.next();
        unsafe { bits::write_int(&mut a, off, v, w); assert_eq!(bits::read_int(&a, off, w), v & bits::low_set(w), "write/read_int off {} w {}", off, w); }
        for i in 0..256 { if i < off || i >= off + w { assert_eq!((a[i / 64] >> (i % 64)) & 1, (orig[i / 64] >> (i % 64)) & 1, "write_int frame"); } }
    }
    for n in [0usize, 1, 63, 64, 65, usize::MAX - 64].iter() { assert_eq!(bits::bits_to_words(*n), n / 64 + (n % 64 != 0) as usize); }   // documented: may panic if n + 63 overflows
}
