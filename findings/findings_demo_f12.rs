use simple_sds::int_vector::{IntVector, IntVectorMapper};
use simple_sds::serialize::{self, MemoryMap, MappingMode, MemoryMapped};
use simple_sds::ops::Push;

#[test]
fn f12_int_vector_mapper_offset_max() {
    let name = serialize::temp_file_name("f12");
    let mut v = IntVector::new(13).unwrap();
    for i in 0..100u64 { v.push(i); }
    serialize::serialize_to(&v, &name).unwrap();
    let map = MemoryMap::new(&name, MappingMode::ReadOnly).unwrap();
    let r = std::panic::catch_unwind(std::panic::AssertUnwindSafe(|| IntVectorMapper::new(&map, usize::MAX).is_err()));
    drop(map);
    std::fs::remove_file(&name).unwrap();
    assert_eq!(r.ok(), Some(true), "IntVectorMapper::new(map, usize::MAX) must return Err, not panic");
}
