use simple_sds::rl_vector::{RLVector, RLBuilder};
use simple_sds::ops::{BitVec, Rank, Select, SelectZero};

#[test]
fn long_first_run_then_many_blocks() {
    let mut b = RLBuilder::new();
    let l0: usize = (1usize << 63) + 1;
    let g: usize = 1usize << 60;
    let l1: usize = (1usize << 60) + 1;
    b.try_set(0, l0).unwrap();
    b.try_set(l0 + g, l1).unwrap();
    let mut pos = l0 + g + l1;
    for _ in 0..(32 * 9) {
        pos += 1;
        b.try_set(pos, 1).unwrap();
        pos += 1;
    }
    b.set_len(pos + 10);
    let rv = RLVector::from(b);
    assert_eq!(rv.len(), pos + 10);
    assert_eq!(rv.select_zero(0), Some(l0));
    assert_eq!(rv.rank(l0), l0);
    assert_eq!(rv.select(l0), Some(l0 + g));
}
