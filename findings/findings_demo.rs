// Demonstrations of findings F1..F11 (DESIGN.md §5) against the public API of simple-sds.
// Drop into <worktree>/tests/ and run `cargo test --offline --test findings_demo` (debug: overflow checks on) and
// `cargo test --offline --release --test findings_demo`.  Each test fails before its `fix:` commit and passes after.
use simple_sds::bit_vector::BitVector;
use simple_sds::ops::{BitVec, Select, PredSucc, Rank, VectorIndex, Vector};
use simple_sds::raw_vector::{RawVector, AccessRaw};
use simple_sds::wavelet_matrix::WaveletMatrix;
use simple_sds::rl_vector::{RLVector, RLBuilder};
use simple_sds::serialize::{self, Serialize, MemoryMap, MappingMode};
use std::io::Write;

fn bv() -> BitVector {
    let mut raw = RawVector::with_len(200, false);
    raw.set_bit(3, true); raw.set_bit(70, true); raw.set_bit(150, true);
    let mut bv = BitVector::from(raw);
    bv.enable_rank(); bv.enable_select(); bv.enable_pred_succ();
    bv
}

#[test]
fn f1_one_iter_nth_huge() {
    let bv = bv();
    let mut iter = bv.one_iter();
    assert_eq!(iter.next(), Some((0, 3)));
    assert_eq!(iter.nth(usize::MAX), None);
    assert_eq!(iter.next(), None);
}

#[test]
fn f2_predecessor_max() {
    let bv = bv();
    assert_eq!(bv.predecessor(usize::MAX).next(), Some((2, 150)));
    assert_eq!(bv.predecessor(usize::MAX).next(), bv.predecessor(bv.len() - 1).next());
}

#[test]
fn f3_wm_predecessor_max() {
    let wm = WaveletMatrix::from(vec![1u64, 3, 1, 0, 2, 3, 3]);
    assert_eq!(wm.predecessor(usize::MAX, 3).next(), Some((2, 6)));
}

#[test]
fn f5_wm_select_max() {
    let wm = WaveletMatrix::from(vec![1u64, 3, 1, 0, 2, 3, 3]);
    assert_eq!(wm.select(usize::MAX, 3), None);
    assert_eq!(wm.select(usize::MAX - 1, 1), None);
    // F4 (WMCore::map_up_one underflow) through the public API: rank past the occurrences of a value whose
    // successor range belongs to a value with a 0 where this one has a 1
    for v in 0..4u64 { for r in 0..10usize { let _ = wm.select(r, v); } }
    assert_eq!(wm.select(3, 3), None);
    assert_eq!(wm.select(1, 0), None);
}

#[test]
fn f6_map_empty_file() {
    let name = serialize::temp_file_name("f6-empty");
    std::fs::File::create(&name).unwrap();
    let r = MemoryMap::new(&name, MappingMode::ReadOnly);
    let ok = r.is_ok();
    drop(r);
    std::fs::remove_file(&name).unwrap();
    assert!(!ok, "mapping an empty file must fail (mmap returns MAP_FAILED for length 0)");
}

#[test]
fn f7_unmap_everything() {
    let name = serialize::temp_file_name("f7-map");
    let v: Vec<u64> = (0..100_001u64).collect();
    serialize::serialize_to(&v, &name).unwrap();
    {
        let map = MemoryMap::new(&name, MappingMode::ReadOnly).unwrap();
        assert_eq!(map.len(), 100_002);
    }
    let maps = std::fs::read_to_string("/proc/self/maps").unwrap();
    let fname = name.to_str().unwrap().to_string();
    std::fs::remove_file(&name).unwrap();
    assert!(!maps.contains(&fname), "part of the file is still mapped after drop");
}

#[test]
fn f8_skip_truncated_option() {
    let v: Option<Vec<u64>> = Some(vec![1, 2, 3, 4, 5]);
    let mut bytes: Vec<u8> = Vec::new();
    v.serialize(&mut bytes).unwrap();
    assert_eq!(bytes.len(), 56);
    for cut in [8usize, 16, 24, 55] {
        let mut reader = &bytes[..cut];
        assert!(serialize::skip_option(&mut reader).is_err(), "skip_option accepted a stream cut to {} of 56 bytes", cut);
    }
    let mut reader = &bytes[..];
    assert!(serialize::skip_option(&mut reader).is_ok());
    assert_eq!(reader.len(), 0);
}

#[test]
fn f9_rlbuilder_set_len_then_set() {
    let mut b = RLBuilder::new();
    b.set_len(10);
    b.try_set(10, 5).unwrap();
    let v = RLVector::from(b);
    assert_eq!(v.len(), 15);
    assert_eq!(v.count_ones(), 5);
    let ones: Vec<(usize, usize)> = v.one_iter().collect();
    assert_eq!(ones, vec![(0, 10), (1, 11), (2, 12), (3, 13), (4, 14)]);
}

#[test]
fn f10_rlvector_huge_len() {
    let mut b = RLBuilder::new();
    b.try_set(5, 3).unwrap();
    b.try_set(1000, 3).unwrap();
    b.set_len(usize::MAX - 1);
    let v = RLVector::from(b);
    assert_eq!(v.len(), usize::MAX - 1);
    assert_eq!(v.rank(2000), 6);
    assert_eq!(v.rank(1001), 4);
    assert_eq!(v.select(5), Some(1002));
    let mut b = RLBuilder::new();
    b.try_set(5, 3).unwrap();
    b.try_set(1000, 3).unwrap();
    b.set_len(1usize << 63);
    let v = RLVector::from(b);
    assert_eq!(v.rank(2000), 6);
}

fn sparse_file(n: usize, pos: &[usize], w: usize) -> Vec<u8> {
    // written from SERIALIZATION.md alone: len, high BitVector (no supports), low IntVector
    use simple_sds::int_vector::IntVector;
    use simple_sds::ops::Push;
    let buckets = if w >= 64 { 1 } else { (n + (1usize << w) - 1) >> w };
    let mut high = RawVector::with_len(pos.len() + buckets, false);
    let mut low = IntVector::new(w).unwrap();
    for (i, p) in pos.iter().enumerate() {
        let h = if w >= 64 { 0 } else { p >> w };
        high.set_bit(h + i, true);
        low.push(if w >= 64 { *p as u64 } else { (*p as u64) & ((1u64 << w) - 1) });
    }
    let mut out: Vec<u8> = Vec::new();
    n.serialize(&mut out).unwrap();
    // BitVector: ones, data, three absent options
    pos.len().serialize(&mut out).unwrap();
    high.serialize(&mut out).unwrap();
    for _ in 0..3 { 0usize.serialize(&mut out).unwrap(); }
    low.serialize(&mut out).unwrap();
    out.flush().unwrap();
    out
}

#[test]
fn f11_sparse_low_width_64() {
    use simple_sds::sparse_vector::SparseVector;
    let pos = [3usize, 70, 150, 999];
    for w in [1usize, 5, 10, 63, 64] {
        let bytes = sparse_file(1000, &pos, w);
        let mut reader = &bytes[..];
        match SparseVector::load(&mut reader) {
            Ok(v) => {
                // if it loads it must answer
                for (i, p) in pos.iter().enumerate() {
                    assert_eq!(v.select(i), Some(*p), "width {}", w);
                }
                assert_eq!(v.rank(151), 3, "width {}", w);
            }
            Err(_) => { assert!(w == 64, "width {} must load", w); }
        }
    }
}
