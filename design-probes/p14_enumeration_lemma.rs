use vstd::prelude::*;
verus! {
global size_of usize == 8;

// abstract bit sequence and rank (as in p2, over Seq<bool> for brevity of the probe)
pub open spec fn rank_spec(b: Seq<bool>, i: int) -> int
    decreases i
{ if i <= 0 { 0 } else { rank_spec(b, i - 1) + if b[i - 1] { 1int } else { 0int } } }

pub open spec fn is_select(b: Seq<bool>, r: int, p: int) -> bool { 0 <= p < b.len() && b[p] && rank_spec(b, p) == r }

pub open spec fn increasing(e: Seq<int>) -> bool { forall|i: int, j: int| 0 <= i < j < e.len() ==> e[i] < e[j] }

// e lists exactly the set positions of b
pub open spec fn enumerates(b: Seq<bool>, e: Seq<int>) -> bool {
    &&& increasing(e)
    &&& forall|i: int| 0 <= i < e.len() ==> 0 <= #[trigger] e[i] < b.len() && b[e[i]]
    &&& forall|p: int| 0 <= p < b.len() && b[p] ==> exists|i: int| 0 <= i < e.len() && e[i] == p
}

// number of entries of e below p
pub open spec fn cnt(e: Seq<int>, p: int) -> int
    decreases e.len()
{ if e.len() == 0 { 0 } else { cnt(e.drop_last(), p) + if e.last() < p { 1int } else { 0int } } }

proof fn lemma_cnt_prefix(e: Seq<int>, i: int)
    requires increasing(e), 0 <= i < e.len()
    ensures cnt(e, e[i]) == i
    decreases e.len()
{
    let d = e.drop_last();
    assert(increasing(d));
    if i == e.len() - 1 {
        // all earlier entries are below e[i]
        lemma_cnt_all_below(d, e[i]);
    } else {
        lemma_cnt_prefix(d, i);
        assert(d[i] == e[i]);
    }
}

proof fn lemma_cnt_all_below(e: Seq<int>, p: int)
    requires forall|k: int| 0 <= k < e.len() ==> e[k] < p
    ensures cnt(e, p) == e.len()
    decreases e.len()
{ if e.len() > 0 { lemma_cnt_all_below(e.drop_last(), p); } }

// cnt(e, p+1) - cnt(e, p) is 1 iff p occurs in e
proof fn lemma_cnt_step(e: Seq<int>, p: int)
    requires increasing(e)
    ensures cnt(e, p + 1) == cnt(e, p) + if exists|i: int| 0 <= i < e.len() && e[i] == p { 1int } else { 0int }
    decreases e.len()
{
    if e.len() > 0 {
        let d = e.drop_last();
        assert(increasing(d));
        lemma_cnt_step(d, p);
        if e.last() == p {
            assert(exists|i: int| 0 <= i < e.len() && e[i] == p) by { assert(e[e.len() - 1] == p); }
            // p does not occur in d
            assert(!(exists|i: int| 0 <= i < d.len() && d[i] == p)) by {
                assert forall|i: int| 0 <= i < d.len() implies d[i] != p by { assert(d[i] == e[i]); }
            }
        } else {
            assert((exists|i: int| 0 <= i < e.len() && e[i] == p) <==> (exists|i: int| 0 <= i < d.len() && d[i] == p)) by {
                if exists|i: int| 0 <= i < e.len() && e[i] == p {
                    let i = choose|i: int| 0 <= i < e.len() && e[i] == p;
                    assert(i < d.len()); assert(d[i] == p);
                }
                if exists|i: int| 0 <= i < d.len() && d[i] == p {
                    let i = choose|i: int| 0 <= i < d.len() && d[i] == p;
                    assert(e[i] == p);
                }
            }
        }
    }
}

proof fn lemma_rank_is_cnt(b: Seq<bool>, e: Seq<int>, p: int)
    requires enumerates(b, e), 0 <= p <= b.len()
    ensures rank_spec(b, p) == cnt(e, p)
    decreases p
{
    if p > 0 {
        lemma_rank_is_cnt(b, e, p - 1);
        lemma_cnt_step(e, p - 1);
        if b[p - 1] {
            // by enumerates, some e[i] == p-1
        } else {
            assert(!(exists|i: int| 0 <= i < e.len() && e[i] == p - 1)) by {
                assert forall|i: int| 0 <= i < e.len() implies e[i] != p - 1 by { assert(b[e[i]]); }
            }
        }
    } else {
        lemma_cnt_none_below(e, 0);
    }
}

proof fn lemma_cnt_none_below(e: Seq<int>, p: int)
    requires forall|k: int| 0 <= k < e.len() ==> e[k] >= p
    ensures cnt(e, p) == 0
    decreases e.len()
{ if e.len() > 0 { lemma_cnt_none_below(e.drop_last(), p); } }

// the enumeration lemma of DESIGN §3
pub proof fn lemma_enumeration(b: Seq<bool>, e: Seq<int>, i: int)
    requires enumerates(b, e), 0 <= i < e.len()
    ensures is_select(b, i, e[i]), rank_spec(b, b.len() as int) == e.len()
{
    lemma_rank_is_cnt(b, e, e[i]);
    lemma_cnt_prefix(e, i);
    lemma_rank_is_cnt(b, e, b.len() as int);
    lemma_cnt_all_below(e, b.len() as int);
}

}
fn main() {}
