use vstd::prelude::*;
verus! {

pub const WORD_BITS: usize = 64;

pub open spec fn bit_of(w: u64, off: int) -> bool { ((w >> (off as u64)) & 1) == 1 }

pub fn split_offset(bit_offset: usize) -> (r: (usize, usize))
    ensures r.0 == bit_offset / 64, r.1 == bit_offset % 64,
{
    assert(bit_offset >> 6 == bit_offset / 64) by (bit_vector);
    assert(bit_offset & 0b111111 == bit_offset % 64) by (bit_vector);
    (bit_offset >> 6, bit_offset & 0b111111)
}
pub fn bits_to_words(n: usize) -> (r: usize)
    requires n + 64 <= usize::MAX
    ensures r == (n + 63) / 64
{
    (n + WORD_BITS - 1) / WORD_BITS
}
pub open spec fn low_mask(n: int) -> u64 { if n >= 64 { 0xFFFF_FFFF_FFFF_FFFFu64 } else { (((1u64 << (n as u64)) - 1) as u64) } }
#[verifier::external_body]
pub fn low_set(n: usize) -> (r: u64)
    requires n <= 64
    ensures r == low_mask(n as int)
{ unimplemented!() }

pub struct RawVector {
    len: usize,
    data: Vec<u64>,
}

impl RawVector {
    pub closed spec fn spec_len(&self) -> int { self.len as int }
    pub closed spec fn spec_bit(&self, i: int) -> bool { bit_of(self.data[i / 64], i % 64) }
    pub closed spec fn wf(&self) -> bool {
        &&& self.data.len() == (self.len + 63) / 64
        &&& self.len + 128 <= usize::MAX
        &&& (self.len % 64 != 0 ==> self.data[self.len as int / 64] >> ((self.len % 64) as u64) == 0)
    }

    pub fn bit(&self, bit_offset: usize) -> (r: bool)
        requires self.wf(), bit_offset < self.spec_len()
        ensures r == self.spec_bit(bit_offset as int)
    {
        let (index, offset) = split_offset(bit_offset);
        ((self.data[index] >> offset) & 1) == 1
    }

    pub fn push_bit(&mut self, value: bool)
        requires old(self).wf(), old(self).spec_len() + 129 <= usize::MAX
        ensures final(self).wf(), final(self).spec_len() == old(self).spec_len() + 1,
            final(self).spec_bit(old(self).spec_len()) == value,
            forall|i: int| 0 <= i < old(self).spec_len() ==> final(self).spec_bit(i) == old(self).spec_bit(i),
    {
        let (index, offset) = split_offset(self.len);
        if index == self.data.len() {
            self.data.push(0);
        }
        proof {
            let w = self.data[index as int];
            let o = offset as u64;
            let v = value as u64;
            assert(0u64 >> o == 0) by (bit_vector);
            assert(w >> o == 0);
            assert(v <= 1);
            assert(o < 64 && w >> o == 0 && v <= 1 ==> ((w | (v << o)) >> o) & 1 == v) by (bit_vector);
            assert(o < 63 && w >> o == 0 && v <= 1 ==> (w | (v << o)) >> ((o + 1) as u64) == 0) by (bit_vector);
            assert(o < 64 && w >> o == 0 && v <= 1 ==> (forall|j: u64| j < o ==> #[trigger] (((w | (v << o)) >> j) & 1) == (w >> j) & 1)) by (bit_vector);
            assert(self.len % 64 == offset);
            assert(self.len / 64 == index);
        }
        self.data[index] |= (value as u64) << offset;
        self.len += 1;
        proof {
            let ol = old(self).spec_len();
            assert(self.spec_bit(ol) == value);
            assert forall|i: int| 0 <= i < ol implies self.spec_bit(i) == old(self).spec_bit(i) by {
                if i / 64 == index as int {
                    let j = (i % 64) as u64;
                    assert(j < offset as u64);
                }
            }
        }
    }
}
}
fn main() {}
