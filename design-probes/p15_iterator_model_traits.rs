use vstd::prelude::*;
verus! {
global size_of usize == 8;

// ---- model traits shadowing std::iter (carry the C10 contracts) ----
pub trait Iterator {
    type Item;
    spec fn inv(&self) -> bool;
    spec fn remaining(&self) -> Seq<Self::Item>;     // abstract window
    fn next(&mut self) -> (r: Option<Self::Item>)
        requires old(self).inv()
        ensures final(self).inv(),
            old(self).remaining().len() == 0 ==> r is None && final(self).remaining() == old(self).remaining(),
            old(self).remaining().len() > 0 ==> r == Some(old(self).remaining()[0]) && final(self).remaining() == old(self).remaining().skip(1);
    fn size_hint(&self) -> (r: (usize, Option<usize>))
        requires self.inv()
        ensures r.0 == self.remaining().len(), r.1 == Some(r.0);
}
pub trait DoubleEndedIterator: Iterator {
    fn next_back(&mut self) -> (r: Option<Self::Item>)
        requires old(self).inv()
        ensures final(self).inv(),
            old(self).remaining().len() == 0 ==> r is None && final(self).remaining() == old(self).remaining(),
            old(self).remaining().len() > 0 ==> r == Some(old(self).remaining().last()) && final(self).remaining() == old(self).remaining().drop_last();
}
pub trait ExactSizeIterator: Iterator {}
pub trait FusedIterator: Iterator {}

pub struct BitVector { pub bits: Vec<bool> }
impl BitVector {
    pub fn get(&self, index: usize) -> (r: bool) requires index < self.bits.len() ensures r == self.bits@[index as int] { self.bits[index] }
}

pub struct Iter<'a> {
    pub parent: &'a BitVector,
    pub next: usize,
    pub limit: usize,
}

// ---- src/bit_vector.rs, verbatim impl blocks ----
impl<'a> Iterator for Iter<'a> {
    type Item = bool;
    open spec fn inv(&self) -> bool { self.next <= self.limit <= self.parent.bits.len() }
    open spec fn remaining(&self) -> Seq<bool> { self.parent.bits@.subrange(self.next as int, self.limit as int) }

    fn next(&mut self) -> (r: Option<Self::Item>) {
        if self.next >= self.limit {
            None
        } else {
            let result = Some(self.parent.get(self.next));
            self.next += 1;
            result
        }
    }

    #[inline]
    fn size_hint(&self) -> (r: (usize, Option<usize>)) {
        let remaining = self.limit - self.next;
        (remaining, Some(remaining))
    }
}

impl<'a> DoubleEndedIterator for Iter<'a> {
    fn next_back(&mut self) -> (r: Option<Self::Item>) {
        if self.next >= self.limit {
            None
        } else {
            self.limit -= 1;
            Some(self.parent.get(self.limit))
        }
    }
}

impl<'a> ExactSizeIterator for Iter<'a> {}

impl<'a> FusedIterator for Iter<'a> {}
}
fn main() {}
