// Design-phase probe (not framework code): Kani harnesses that were appended to a scratch copy of
// src/bits.rs as `#[cfg(kani)] mod verif_kani { use super::*; ... }` and run with
//   CARGO_NET_OFFLINE=true cargo kani --lib [-Z function-contracts] --harness <name>
// Results on the unchanged tree (16 cores, one harness per process):
//   low_set_spec        SUCCESSFUL   0.07 s   (all n in 0..=64)
//   bit_len_contract    SUCCESSFUL   0.6 s    (all u64; proof_for_contract on the real fn)
//   select_spec         SUCCESSFUL  50 s      (portable path, all (n, rank < popcount(n)))
//   write_read_spec     SUCCESSFUL  16 s      (all offsets 0..=191, widths 1..=64, values, backgrounds, frame)
//   select_bmi2 (standalone `kani sel.rs`, PDEP replaced by the Intel SDM loop)  SUCCESSFUL 42 s

#[cfg(kani)]
mod verif_kani {
    use super::*;

    #[kani::proof]
    fn low_set_spec() {
        let n: usize = kani::any();
        kani::assume(n <= 64);
        let r = low_set(n);
        let expect = if n == 64 { !0u64 } else { (1u64 << n) - 1 };
        assert_eq!(r, expect);
    }

    // contract attribute placed on the real function by the overlay:
    // #[cfg_attr(kani, kani::ensures(|r: &usize| *r >= 1 && *r <= 64
    //     && (*r == 64 || n < (1u64 << *r)) && (*r == 1 || n >= (1u64 << (*r - 1)))))]
    #[kani::proof_for_contract(bit_len)]
    fn bit_len_contract() { bit_len(kani::any()); }

    #[kani::proof]
    fn select_spec() {
        let n: u64 = kani::any();
        let rank: usize = kani::any();
        kani::assume(rank < n.count_ones() as usize);
        let r = unsafe { select(n, rank) };
        assert!(r < 64);
        assert!((n >> r) & 1 == 1);
        assert!((n & low_set(r)).count_ones() as usize == rank);
    }

    #[kani::proof]
    fn write_read_spec() {
        let mut array: [u64; 4] = kani::any();
        let old = array;
        let bit_offset: usize = kani::any();
        let width: usize = kani::any();
        let value: u64 = kani::any();
        kani::assume(width >= 1 && width <= 64);
        kani::assume(bit_offset <= 191 && bit_offset + width <= 256);
        unsafe { write_int(&mut array, bit_offset, value, width); }
        let r = unsafe { read_int(&array, bit_offset, width) };
        assert_eq!(r, value & low_set(width));
        let j: usize = kani::any();
        kani::assume(j < 256);
        if j < bit_offset || j >= bit_offset + width {
            assert_eq!((array[j / 64] >> (j % 64)) & 1, (old[j / 64] >> (j % 64)) & 1);
        }
    }
}

// Standalone extraction of the BMI2 arm of bits::select (cfg gates dropped, PDEP = Intel SDM pseudo-code):
//
// fn _pdep_u64(a: u64, mask: u64) -> u64 {
//     let mut dest: u64 = 0; let mut k: u32 = 0; let mut m: u32 = 0;
//     while m < 64 { if (mask >> m) & 1 == 1 { dest |= ((a >> k) & 1) << m; k += 1; } m += 1; }
//     dest
// }
// pub unsafe fn select(n: u64, rank: usize) -> usize {
//     { let pos = _pdep_u64(1u64 << rank, n); pos.trailing_zeros() as usize }
// }
// #[kani::proof] #[kani::unwind(65)] fn select_bmi2_spec() { /* same assertions as select_spec */ }
