use vstd::prelude::*;
verus! {
global size_of usize == 8;
pub open spec fn bit_of(w: u64, off: int) -> bool { ((w >> (off as u64)) & 1) == 1 }
pub mod bits {
    use vstd::prelude::*;
    const INDEX_SHIFT: usize = 6;
    const OFFSET_MASK: usize = 0b111111;
    // extracted from src/bits.rs:557
    pub fn split_offset(bit_offset: usize) -> /*@+*/(r: /*@-*/(usize, usize)/*@+*/)/*@-*/
/*@+*/    ensures r.0 == bit_offset / 64, r.1 == bit_offset % 64,/*@-*/
{
/*@+*/    assert(bit_offset >> 6 == bit_offset / 64) by (bit_vector);
    assert(bit_offset & 0b111111 == bit_offset % 64) by (bit_vector);
/*@-*/    (bit_offset >> INDEX_SHIFT, bit_offset & OFFSET_MASK)
}
}
pub struct RawVector { pub len: usize, pub data: Vec<u64> }
impl RawVector {
    pub open spec fn spec_len(&self) -> int { self.len as int }
    pub open spec fn spec_bit(&self, i: int) -> bool { bit_of(self.data[i / 64], i % 64) }
    pub open spec fn wf(&self) -> bool {
        &&& self.data.len() == (self.len + 63) / 64
        &&& self.len + 128 <= usize::MAX
        &&& (self.len % 64 != 0 ==> self.data[self.len as int / 64] >> ((self.len % 64) as u64) == 0)
    }
    // extracted from src/raw_vector.rs:572  (impl PushRaw for RawVector)
    pub fn push_bit(&mut self, value: bool)
/*@+*/        requires old(self).wf(), old(self).spec_len() + 129 <= usize::MAX
        ensures final(self).wf(), final(self).spec_len() == old(self).spec_len() + 1,
            final(self).spec_bit(old(self).spec_len()) == value,
            forall|i: int| 0 <= i < old(self).spec_len() ==> final(self).spec_bit(i) == old(self).spec_bit(i),/*@-*/
{
        let (index, offset) = bits::split_offset(self.len);
        if index == self.data.len() {
            self.data.push(0);
        }
/*@+*/        proof {
            let w = self.data[index as int]; let o = offset as u64; let v = value as u64;
            assert(0u64 >> o == 0) by (bit_vector);
            assert(w >> o == 0); assert(v <= 1);
            assert(o < 64 && w >> o == 0 && v <= 1 ==> ((w | (v << o)) >> o) & 1 == v) by (bit_vector);
            assert(o < 63 && w >> o == 0 && v <= 1 ==> (w | (v << o)) >> ((o + 1) as u64) == 0) by (bit_vector);
            assert(o < 64 && w >> o == 0 && v <= 1 ==> (forall|j: u64| j < o ==> #[trigger] (((w | (v << o)) >> j) & 1) == (w >> j) & 1)) by (bit_vector);
            assert(self.len % 64 == offset); assert(self.len / 64 == index);
        }
/*@-*/        self.data[index] |= (value as u64) << offset;
        self.len += 1;
    /*@+*/        proof {
            let ol = old(self).spec_len();
            assert(self.spec_bit(ol) == value);
            assert forall|i: int| 0 <= i < ol implies self.spec_bit(i) == old(self).spec_bit(i) by {
                if i / 64 == index as int { let j = (i % 64) as u64; assert(j < offset as u64); }
            }
        }
/*@-*/}
}
}
fn main() {}
