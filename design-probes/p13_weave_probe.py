#!/usr/bin/env python3
"""Design-phase probe: extract RawVector::push_bit and bits::split_offset from /repo, weave contracts + hints,
audit identity, emit a Verus unit."""
import re, sys
from p13_extract_probe import extract_fn

BEGIN, END = '/*@+*/', '/*@-*/'          # every inserted span is bracketed, so it can be stripped for the audit
def ins(t): return BEGIN + t + END

def weave(sig, body, ret_name=None, spec='', anchors=()):
    if ret_name:                         # `-> T` becomes `-> (r: T)`
        sig = re.sub(r'->\s*(.+?)\s*$', lambda m: '-> ' + ins('(' + ret_name + ': ') + m.group(1) + ins(')') + ' ', sig.rstrip()) 
    out = sig.rstrip() + '\n' + ins(spec) + '\n'
    b = body
    for kind, key, text in anchors:
        if kind == 'before':
            pos = None
            for m in re.finditer(r'\n([ \t]*)' + re.escape(key), b):
                pos = m.start() + 1; break
            if pos is None: raise KeyError('anchor lost: ' + key)
            b = b[:pos] + ins(text + '\n') + b[pos:]
        elif kind == 'end':
            pos = b.rstrip().rfind('}')
            b = b[:pos] + ins(text + '\n') + b[pos:]
    return out + b

def strip(woven):
    return re.sub(re.escape(BEGIN) + r'.*?' + re.escape(END), '', woven, flags=re.S)

def norm(s): return re.sub(r'\s+', ' ', s).strip()

sig, body, line = extract_fn('/repo/src/raw_vector.rs', r'impl\s+PushRaw\s+for\s+RawVector', 'push_bit')
spec = '''        requires old(self).wf(), old(self).spec_len() + 129 <= usize::MAX
        ensures final(self).wf(), final(self).spec_len() == old(self).spec_len() + 1,
            final(self).spec_bit(old(self).spec_len()) == value,
            forall|i: int| 0 <= i < old(self).spec_len() ==> final(self).spec_bit(i) == old(self).spec_bit(i),'''
hint1 = '''        proof {
            let w = self.data[index as int]; let o = offset as u64; let v = value as u64;
            assert(0u64 >> o == 0) by (bit_vector);
            assert(w >> o == 0); assert(v <= 1);
            assert(o < 64 && w >> o == 0 && v <= 1 ==> ((w | (v << o)) >> o) & 1 == v) by (bit_vector);
            assert(o < 63 && w >> o == 0 && v <= 1 ==> (w | (v << o)) >> ((o + 1) as u64) == 0) by (bit_vector);
            assert(o < 64 && w >> o == 0 && v <= 1 ==> (forall|j: u64| j < o ==> #[trigger] (((w | (v << o)) >> j) & 1) == (w >> j) & 1)) by (bit_vector);
            assert(self.len % 64 == offset); assert(self.len / 64 == index);
        }'''
hint2 = '''        proof {
            let ol = old(self).spec_len();
            assert(self.spec_bit(ol) == value);
            assert forall|i: int| 0 <= i < ol implies self.spec_bit(i) == old(self).spec_bit(i) by {
                if i / 64 == index as int { let j = (i % 64) as u64; assert(j < offset as u64); }
            }
        }'''
woven = weave(sig, body, None, spec, [('before', 'self.data[index] |=', hint1), ('end', '', hint2)])
assert norm(strip(woven)) == norm(sig + body), 'identity audit failed'

s2, b2, l2 = extract_fn('/repo/src/bits.rs', '', 'split_offset')
w2 = weave(s2, b2, 'r', '    ensures r.0 == bit_offset / 64, r.1 == bit_offset % 64,',
           [('before', '(bit_offset >> INDEX_SHIFT', '    assert(bit_offset >> 6 == bit_offset / 64) by (bit_vector);\n    assert(bit_offset & 0b111111 == bit_offset % 64) by (bit_vector);')])
assert norm(strip(w2)) == norm(s2 + b2), 'identity audit failed (split_offset)'

unit = f'''use vstd::prelude::*;
verus! {{
global size_of usize == 8;
pub open spec fn bit_of(w: u64, off: int) -> bool {{ ((w >> (off as u64)) & 1) == 1 }}
pub mod bits {{
    use vstd::prelude::*;
    const INDEX_SHIFT: usize = 6;
    const OFFSET_MASK: usize = 0b111111;
    // extracted from src/bits.rs:{l2}
    {w2}
}}
pub struct RawVector {{ pub len: usize, pub data: Vec<u64> }}
impl RawVector {{
    pub open spec fn spec_len(&self) -> int {{ self.len as int }}
    pub open spec fn spec_bit(&self, i: int) -> bool {{ bit_of(self.data[i / 64], i % 64) }}
    pub open spec fn wf(&self) -> bool {{
        &&& self.data.len() == (self.len + 63) / 64
        &&& self.len + 128 <= usize::MAX
        &&& (self.len % 64 != 0 ==> self.data[self.len as int / 64] >> ((self.len % 64) as u64) == 0)
    }}
    // extracted from src/raw_vector.rs:{line}  (impl PushRaw for RawVector)
    pub {woven}
}}
}}
fn main() {{}}
'''
open('unit_push_bit.rs', 'w').write(unit)
print('identity audit: ok; wrote unit_push_bit.rs')
