use vstd::prelude::*;
verus! {
global size_of usize == 8;

pub mod io {
    use vstd::prelude::*;
    pub struct Error { pub k: u8 }
    pub enum ErrorKind { InvalidData, UnexpectedEof, Other }
    impl Error {
        #[verifier::external_body]
        pub fn new(kind: ErrorKind, msg: &str) -> Error { unimplemented!() }
    }
    pub type Result<T> = core::result::Result<T, Error>;
    // element-granular reader model for this probe (the framework uses bytes)
    pub trait Read {
        spec fn rest(&self) -> Seq<u64>;
    }
}
use io::{Error, ErrorKind};

// ---- reader-side spec written from SERIALIZATION.md: "independent codec" ----
pub open spec fn parse_elem(s: Seq<u64>) -> Option<(u64, int)> {
    if s.len() >= 1 { Some((s[0], 1)) } else { None }
}
// vector of elements: length element, then that many items
pub open spec fn parse_vec(s: Seq<u64>) -> Option<(Seq<u64>, int)> {
    match parse_elem(s) {
        Some((n, _)) => if s.len() >= 1 + n { Some((s.subrange(1, 1 + n as int), 1 + n as int)) } else { None },
        None => None,
    }
}
pub struct RawView { pub len: int, pub words: Seq<u64> }
// raw bitvector: length in bits, then a vector of floor((n+63)/64) elements
pub open spec fn parse_raw(s: Seq<u64>) -> Option<(RawView, int)> {
    match parse_elem(s) {
        Some((len, _)) => match parse_vec(s.skip(1)) {
            Some((words, k)) => if (len + 63) / 64 == words.len() { Some((RawView { len: len as int, words }, 1 + k)) } else { None },
            None => None,
        },
        None => None,
    }
}
pub open spec fn fmt_raw(v: RawView) -> Seq<u64> { seq![v.len as u64] + seq![v.words.len() as u64] + v.words }

// round trip / foreign file, and back-to-back loading
proof fn lemma_roundtrip(v: RawView, tail: Seq<u64>)
    requires 0 <= v.len <= u64::MAX, v.words.len() == (v.len + 63) / 64, v.words.len() <= u64::MAX
    ensures parse_raw(fmt_raw(v) + tail) == Some((v, fmt_raw(v).len() as int))
{
    let s = fmt_raw(v) + tail;
    assert(s[0] == v.len as u64);
    assert(s.skip(1)[0] == v.words.len() as u64);
    assert(s.skip(1).subrange(1, 1 + v.words.len() as int) =~= v.words);
}
// truncation: every strict prefix is rejected
proof fn lemma_truncated(v: RawView, n: int)
    requires 0 <= v.len <= u64::MAX, v.words.len() == (v.len + 63) / 64, v.words.len() <= u64::MAX, 0 <= n < fmt_raw(v).len()
    ensures parse_raw(fmt_raw(v).take(n)) is None
{
    let s = fmt_raw(v).take(n);
    if n >= 2 {
        assert(s[0] == v.len as u64);
        assert(s.skip(1)[0] == v.words.len() as u64);
    } else if n == 1 {
        assert(s.skip(1).len() == 0);
    }
}

// ---- the code side ----
pub fn bits_to_words(n: usize) -> (r: usize)
    requires n + 64 <= usize::MAX
    ensures r == (n + 63) / 64
{ (n + 64 - 1) / 64 }

pub trait Serialize: Sized {
    type V;
    spec fn sview(&self) -> Self::V;
    spec fn swf(&self) -> bool;
    spec fn parsed(s: Seq<u64>) -> Option<(Self::V, int)>;
    fn load<T: io::Read>(reader: &mut T) -> (r: io::Result<Self>)
        ensures match Self::parsed(old(reader).rest()) {
            Some((v, k)) => r is Ok && r->Ok_0.sview() == v && r->Ok_0.swf() && final(reader).rest() == old(reader).rest().skip(k),
            None => r is Err,
        };
}
impl Serialize for usize {
    type V = u64;
    open spec fn sview(&self) -> u64 { *self as u64 }
    open spec fn swf(&self) -> bool { true }
    open spec fn parsed(s: Seq<u64>) -> Option<(u64, int)> { parse_elem(s) }
    #[verifier::external_body]
    fn load<T: io::Read>(reader: &mut T) -> (r: io::Result<Self>) { unimplemented!() }
}
impl Serialize for Vec<u64> {
    type V = Seq<u64>;
    open spec fn sview(&self) -> Seq<u64> { self@ }
    open spec fn swf(&self) -> bool { true }
    open spec fn parsed(s: Seq<u64>) -> Option<(Seq<u64>, int)> { parse_vec(s) }
    #[verifier::external_body]
    fn load<T: io::Read>(reader: &mut T) -> (r: io::Result<Self>) { unimplemented!() }
}

pub struct RawVector { pub len: usize, pub data: Vec<u64> }

impl Serialize for RawVector {
    type V = RawView;
    open spec fn sview(&self) -> RawView { RawView { len: self.len as int, words: self.data@ } }
    open spec fn swf(&self) -> bool { self.data.len() == (self.len + 63) / 64 }
    open spec fn parsed(s: Seq<u64>) -> Option<(RawView, int)> { parse_raw(s) }

    fn load<T: io::Read>(reader: &mut T) -> (r: io::Result<Self>) {
        let len = usize::load(reader)?;
        let data = <Vec<u64> as Serialize>::load(reader)?;
        if bits_to_words(len) != data.len() {
            Err(Error::new(ErrorKind::InvalidData, "Bit length / word length mismatch"))
        } else {
            Ok(RawVector {
                len, data,
            })
        }
    }
}
}
fn main() {}
