use vstd::prelude::*;
verus! {
pub struct V { len: usize, width: usize }
impl V {
    pub closed spec fn wf(&self) -> bool { self.width >= 1 && self.width <= 64 && self.len * self.width <= usize::MAX }
    pub closed spec fn slen(&self) -> int { self.len as int }
    fn get(&self, index: usize) -> u64
        requires self.wf()
    {
        assert!(index < self.len, "Index is out of bounds");
        let x = index * self.width;
        0
    }
    fn f(x: Option<usize>) -> usize {
        x.unwrap()
    }
    fn g(x: usize) -> usize {
        if x > 3 { panic!("boo"); }
        x
    }
}
}
fn main() {}
