use vstd::prelude::*;
verus! {
global size_of usize == 8;

pub struct RLBuilder {
    pub len: usize,
    pub ones: usize,
    pub tail: usize,
    pub run: (usize, usize),
    pub enc: Ghost<Seq<(int, int)>>,   // stands for samples+data in this probe: the runs already encoded
}

impl RLBuilder {
    // abstract content: encoded runs followed by the pending run (if any)
    pub open spec fn runs(&self) -> Seq<(int, int)> {
        if self.run.1 > 0 { self.enc@.push((self.run.0 as int, self.run.1 as int)) } else { self.enc@ }
    }
    pub open spec fn inv(&self) -> bool {
        &&& self.tail <= self.run.0
        &&& self.run.0 + self.run.1 == self.len          // the pending run ends at len (also when it is empty)
        &&& self.ones <= self.len
    }

    pub fn len(&self) -> (r: usize) ensures r == self.len { self.len }

    // flush(): body abstracted in this probe (it encodes the pending run); contract as in DESIGN C03
    #[verifier::external_body]
    fn flush(&mut self)
        requires old(self).inv()
        ensures final(self).inv(), final(self).runs() == old(self).runs(), final(self).len == old(self).len,
            final(self).ones == old(self).ones, final(self).run == (old(self).len, 0usize),
    { unimplemented!() }

    pub unsafe fn set_run_unchecked(&mut self, start: usize, len: usize)
        requires old(self).inv(), start >= old(self).len, start + len <= usize::MAX, old(self).ones + len <= usize::MAX
        ensures final(self).inv(),
            len > 0 ==> final(self).len == start + len,
            // a run adjacent to the pending one is merged, otherwise appended
            len > 0 && start == old(self).len && old(self).run.1 > 0 ==>
                final(self).runs() == old(self).enc@.push((old(self).run.0 as int, old(self).run.1 + len)),
            len > 0 && !(start == old(self).len && old(self).run.1 > 0) ==>
                final(self).runs() == old(self).runs().push((start as int, len as int)),
    {
        if len <= 0 {
            return;
        }
        if start == self.len() {
            self.len += len;
            self.ones += len;
            self.run.1 += len;
        } else {
            self.flush();
            self.len = start + len;
            self.ones += len;
            self.run = (start, len);
        }
    }

    pub fn set_len(&mut self, len: usize)
        requires old(self).inv()
        ensures final(self).inv(), final(self).runs() == old(self).runs(),
            final(self).len == if len > old(self).len { len } else { old(self).len },
    {
        if len > self.len() {
            self.flush();
            self.len = len;
        }
    }
}
}
fn main() {}
