#!/usr/bin/env python3
"""Design-phase probe (not framework code): locate Rust items by path with a small Rust-aware scanner and
copy their text verbatim.  Usage: extract_probe.py <file.rs> <impl header regex or ''> <fn name>"""
import re, sys

def scan(src):
    """yield (i, ch, in_code) skipping comments / strings / char literals; returns a mask of code positions"""
    n = len(src); mask = [True]*n; i = 0
    while i < n:
        c = src[i]
        if src.startswith('//', i):
            j = src.find('\n', i); j = n if j < 0 else j
            for k in range(i, j): mask[k] = False
            i = j; continue
        if src.startswith('/*', i):
            depth = 1; j = i+2
            while j < n and depth:
                if src.startswith('/*', j): depth += 1; j += 2
                elif src.startswith('*/', j): depth -= 1; j += 2
                else: j += 1
            for k in range(i, j): mask[k] = False
            i = j; continue
        if c == '"':
            j = i+1
            while j < n and src[j] != '"':
                j += 2 if src[j] == '\\' else 1
            for k in range(i, j+1): mask[k] = False
            i = j+1; continue
        if c == 'r' and re.match(r'r#*"', src[i:]):
            m = re.match(r'r(#*)"', src[i:]); close = '"' + m.group(1)
            j = src.find(close, i+len(m.group(0))); j = n if j < 0 else j+len(close)
            for k in range(i, j): mask[k] = False
            i = j; continue
        if c == "'":
            m = re.match(r"'(\\.[^']*|[^'\\])'", src[i:])   # char literal, not a lifetime
            if m:
                for k in range(i, i+len(m.group(0))): mask[k] = False
                i += len(m.group(0)); continue
        i += 1
    return mask

def match_brace(src, mask, open_pos):
    depth = 0
    for i in range(open_pos, len(src)):
        if not mask[i]: continue
        if src[i] == '{': depth += 1
        elif src[i] == '}':
            depth -= 1
            if depth == 0: return i
    raise ValueError('unbalanced')

def find_block(src, mask, header_re, start=0, end=None):
    """first code occurrence of header_re followed by '{'; returns (hdr_start, open, close)"""
    end = len(src) if end is None else end
    for m in re.finditer(header_re, src[start:end]):
        s = start + m.start()
        if not mask[s]: continue
        o = s
        while o < end and not (mask[o] and src[o] in '{;'): o += 1
        if o >= end or src[o] == ';': continue
        return s, o, match_brace(src, mask, o)
    raise KeyError(header_re)

def extract_fn(path, impl_re, fn_name):
    src = open(path).read(); mask = scan(src)
    lo, hi = 0, len(src)
    if impl_re:
        s, o, c = find_block(src, mask, impl_re)
        lo, hi = o, c
    s, o, c = find_block(src, mask, r'(pub(\([a-z]+\))?\s+)?(unsafe\s+)?fn\s+' + re.escape(fn_name) + r'\b', lo, hi)
    line = src.count('\n', 0, s) + 1
    return src[s:o], src[o:c+1], line

if __name__ == '__main__':
    sig, body, line = extract_fn(sys.argv[1], sys.argv[2], sys.argv[3])
    print(f'// extracted from {sys.argv[1]}:{line}')
    print(sig + body)
