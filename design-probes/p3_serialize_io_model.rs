use vstd::prelude::*;
verus! {
global size_of usize == 8;

// ===== environment model: stands in for std::io (trusted contracts) =====
pub mod io {
    use vstd::prelude::*;
    pub struct Error { pub k: u8 }
    pub enum ErrorKind { InvalidData, UnexpectedEof, Other }
    impl Error {
        #[verifier::external_body]
        pub fn new(kind: ErrorKind, msg: &str) -> Error { unimplemented!() }
    }
    pub type Result<T> = core::result::Result<T, Error>;

    pub trait Write {
        spec fn written(&self) -> Seq<u8>;
        fn write_all(&mut self, buf: &[u8]) -> (r: Result<()>)
            ensures r is Ok ==> final(self).written() == old(self).written() + buf@;
    }
    pub trait Read {
        spec fn rest(&self) -> Seq<u8>;
        fn read_exact(&mut self, buf: &mut [u8]) -> (r: Result<()>)
            ensures r is Ok ==> old(self).rest() == final(buf)@ + final(self).rest() && final(buf)@.len() == old(buf)@.len(),
                    old(self).rest().len() < old(buf)@.len() ==> r is Err;
    }
}

pub uninterp spec fn le8(x: u64) -> Seq<u8>;   // little-endian bytes of an element (uninterpreted; axioms as needed)
pub open spec fn words_bytes(s: Seq<u64>) -> Seq<u8>
    decreases s.len()
{ if s.len() == 0 { Seq::empty() } else { words_bytes(s.drop_last()) + le8(s.last()) } }

// ===== src/serialize.rs: trait Serialize (verbatim signatures + contracts) =====
pub trait Serialize: Sized {
    spec fn hdr(&self) -> Seq<u8>;
    spec fn body(&self) -> Seq<u8>;
    spec fn swf(&self) -> bool;

    fn serialize<T: io::Write>(&self, writer: &mut T) -> (r: io::Result<()>)
        requires self.swf()
        ensures r is Ok ==> final(writer).written() == old(writer).written() + self.hdr() + self.body(),
    {
        self.serialize_header(writer)?;
        self.serialize_body(writer)?;
        Ok(())
    }

    fn serialize_header<T: io::Write>(&self, writer: &mut T) -> (r: io::Result<()>)
        requires self.swf()
        ensures r is Ok ==> final(writer).written() == old(writer).written() + self.hdr();

    fn serialize_body<T: io::Write>(&self, writer: &mut T) -> (r: io::Result<()>)
        requires self.swf()
        ensures r is Ok ==> final(writer).written() == old(writer).written() + self.body();

    fn load<T: io::Read>(reader: &mut T) -> (r: io::Result<Self>)
        ensures r is Ok ==> r->Ok_0.swf() && old(reader).rest() == r->Ok_0.hdr() + r->Ok_0.body() + final(reader).rest();

    fn size_in_elements(&self) -> (r: usize)
        requires self.swf()
        ensures 8 * r == self.hdr().len() + self.body().len();
}

impl Serialize for usize {
    open spec fn hdr(&self) -> Seq<u8> { Seq::empty() }
    open spec fn body(&self) -> Seq<u8> { le8(*self as u64) }
    open spec fn swf(&self) -> bool { true }
    fn serialize_header<T: io::Write>(&self, _w: &mut T) -> (r: io::Result<()>) { Ok(()) }
    #[verifier::external_body]
    fn serialize_body<T: io::Write>(&self, writer: &mut T) -> (r: io::Result<()>) { unimplemented!() }
    #[verifier::external_body]
    fn load<T: io::Read>(reader: &mut T) -> (r: io::Result<Self>) { unimplemented!() }
    #[verifier::external_body]
    fn size_in_elements(&self) -> (r: usize) { unimplemented!() }
}

impl Serialize for Vec<u64> {
    open spec fn hdr(&self) -> Seq<u8> { le8(self.len() as u64) }
    open spec fn body(&self) -> Seq<u8> { words_bytes(self@) }
    open spec fn swf(&self) -> bool { true }
    fn serialize_header<T: io::Write>(&self, writer: &mut T) -> (r: io::Result<()>) {
        let size = self.len();
        size.serialize(writer)?;
        Ok(())
    }
    #[verifier::external_body]
    fn serialize_body<T: io::Write>(&self, writer: &mut T) -> (r: io::Result<()>) { unimplemented!() }
    #[verifier::external_body]
    fn load<T: io::Read>(reader: &mut T) -> (r: io::Result<Self>) { unimplemented!() }
    #[verifier::external_body]
    fn size_in_elements(&self) -> (r: usize) { unimplemented!() }
}

pub struct RawVector { len: usize, data: Vec<u64> }

// ===== src/raw_vector.rs: impl Serialize for RawVector (bodies verbatim) =====
impl Serialize for RawVector {
    closed spec fn hdr(&self) -> Seq<u8> { le8(self.len as u64) + le8(self.data.len() as u64) }
    closed spec fn body(&self) -> Seq<u8> { words_bytes(self.data@) }
    closed spec fn swf(&self) -> bool { self.data.len() == (self.len + 63) / 64 && self.len + 64 <= usize::MAX }

    fn serialize_header<T: io::Write>(&self, writer: &mut T) -> (r: io::Result<()>) {
        self.len.serialize(writer)?;
        self.data.serialize_header(writer)?;
        Ok(())
    }

    fn serialize_body<T: io::Write>(&self, writer: &mut T) -> (r: io::Result<()>) {
        self.data.serialize_body(writer)?;
        Ok(())
    }

    #[verifier::external_body]
    fn load<T: io::Read>(reader: &mut T) -> (r: io::Result<Self>) { unimplemented!() }

    #[verifier::external_body]
    fn size_in_elements(&self) -> (r: usize) { unimplemented!() }
}
}
fn main() {}
