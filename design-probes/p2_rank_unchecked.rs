use vstd::prelude::*;
verus! {
global size_of usize == 8;

// ---------- bit theory ----------
pub open spec fn bit_of(w: u64, i: int) -> bool { ((w >> (i as u64)) & 1) == 1 }

// number of set bits among the lowest n bits of w
pub open spec fn pc(w: u64, n: int) -> int
    decreases n
{
    if n <= 0 { 0 } else { pc(w, n - 1) + if bit_of(w, n - 1) { 1int } else { 0int } }
}

pub open spec fn low_mask(n: int) -> u64 { if n >= 64 { 0xFFFF_FFFF_FFFF_FFFFu64 } else { (((1u64 << (n as u64)) - 1) as u64) } }

// trusted: u64::count_ones is the population count
pub assume_specification [<u64>::count_ones] (x: u64) -> (r: u32) ensures r as int == pc(x, 64);

proof fn lemma_pc_bounds(w: u64, n: int)
    requires 0 <= n
    ensures 0 <= pc(w, n) <= n
    decreases n
{ if n > 0 { lemma_pc_bounds(w, n - 1); } }

proof fn lemma_mask_bit(w: u64, o: int, j: int)
    requires 0 <= o <= 64, 0 <= j < 64
    ensures bit_of(w & low_mask(o), j) == (j < o && bit_of(w, j))
{
    let oo = o as u64; let jj = j as u64;
    if o >= 64 {
        assert(w & 0xFFFF_FFFF_FFFF_FFFFu64 == w) by (bit_vector);
    } else {
        assert(oo < 64 && jj < 64 ==> ((((w & (((1u64 << oo) - 1) as u64)) >> jj) & 1) == 1) == (jj < oo && ((w >> jj) & 1) == 1)) by (bit_vector);
    }
}

// pc of a masked word over n bits
proof fn lemma_pc_mask(w: u64, o: int, n: int)
    requires 0 <= o <= 64, 0 <= n <= 64
    ensures pc(w & low_mask(o), n) == pc(w, if n < o { n } else { o })
    decreases n
{
    if n > 0 {
        lemma_pc_mask(w, o, n - 1);
        lemma_mask_bit(w, o, n - 1);
    }
}

// ---------- the vector ----------
pub struct Bits { pub data: Seq<u64>, pub len: int }

pub open spec fn vbit(b: Bits, i: int) -> bool { bit_of(b.data[i / 64], i % 64) }

pub open spec fn rank_spec(b: Bits, i: int) -> int
    decreases i
{
    if i <= 0 { 0 } else { rank_spec(b, i - 1) + if vbit(b, i - 1) { 1int } else { 0int } }
}

proof fn lemma_rank_bounds(b: Bits, i: int)
    requires 0 <= i
    ensures 0 <= rank_spec(b, i) <= i
    decreases i
{ if i > 0 { lemma_rank_bounds(b, i - 1); } }

proof fn lemma_rank_word(b: Bits, w: int, o: int)
    requires 0 <= w, 0 <= o <= 64
    ensures rank_spec(b, 64 * w + o) == rank_spec(b, 64 * w) + pc(b.data[w], o)
    decreases o
{
    if o > 0 {
        lemma_rank_word(b, w, o - 1);
        assert((64 * w + o - 1) / 64 == w);
        assert((64 * w + o - 1) % 64 == o - 1);
    }
}



// ---------- executable side: verbatim bodies from src ----------
pub const WORD_BITS: usize = 64;

pub fn split_offset(bit_offset: usize) -> (r: (usize, usize))
    ensures r.0 == bit_offset / 64, r.1 == bit_offset % 64,
{
    assert(bit_offset >> 6 == bit_offset / 64) by (bit_vector);
    assert(bit_offset & 0b111111 == bit_offset % 64) by (bit_vector);
    (bit_offset >> 6, bit_offset & 0b111111)
}

#[verifier::external_body]
pub unsafe fn low_set_unchecked(n: usize) -> (r: u64)
    requires n <= 64
    ensures r == low_mask(n as int)
{ unimplemented!() }

pub struct RawVector { len: usize, data: Vec<u64> }
impl RawVector {
    pub closed spec fn view(&self) -> Bits { Bits { data: self.data@, len: self.len as int } }
    pub closed spec fn wf(&self) -> bool { self.data.len() == (self.len + 63) / 64 && self.len + 128 <= usize::MAX }
    pub unsafe fn word_unchecked(&self, index: usize) -> (r: u64)
        requires self.wf(), index < self@.data.len()
        ensures r == self@.data[index as int]
    {
        self.data[index]
    }
}

pub struct BitVector { ones: usize, data: RawVector }
impl BitVector {
    pub closed spec fn view(&self) -> Bits { self.data@ }
    pub closed spec fn wf(&self) -> bool { self.data.wf() }
}

pub struct RankSupport { samples: Vec<(u64, u64)> }

impl RankSupport {
    pub const BLOCK_SIZE: usize = 512;
    const RELATIVE_RANK_BITS: usize = 9;
    const RELATIVE_RANK_MASK: usize = 0x1FF;
    const WORDS_PER_BLOCK: usize = 8;
    const WORD_MASK: usize = 0x7;

    pub closed spec fn valid_for(&self, parent: &BitVector) -> bool {
        let b = parent@;
        &&& parent.wf()
        &&& self.samples.len() == (b.len + 511) / 512
        &&& forall|k: int| 0 <= k < self.samples.len() ==> (#[trigger] self.samples[k]).0 as int == rank_spec(b, 512 * k) && self.samples[k].1 >> 63 == 0
        &&& forall|k: int, j: int| 0 <= k < self.samples.len() && 1 <= j < 8 && 8 * k + j < b.data.len() ==>
                (((#[trigger] self.samples[k]).1 >> ((9 * (j - 1)) as u64)) & 0x1FF) as int == #[trigger] rank_spec(b, 64 * (8 * k + j)) - rank_spec(b, 512 * k)
    }

    pub unsafe fn rank_unchecked(&self, parent: &BitVector, index: usize) -> (r: usize)
        requires self.valid_for(parent), index < parent@.len
        ensures r as int == rank_spec(parent@, index as int)
    {
        let block = index / Self::BLOCK_SIZE;
        let (word, offset) = split_offset(index);

        // Rank at the start of the block and relative ranks at the start of the words.
        let (block_start, relative_ranks) = self.samples[block];

        proof {
            assert(word & 0x7 == word % 8) by (bit_vector);
            assert(index / 512 == word / 8);
        }
        let relative = ((word & Self::WORD_MASK) + Self::WORDS_PER_BLOCK - 1) & Self::WORD_MASK;

        proof {
            let k = word % 8;
            let wm: usize = word & 0x7;
            assert(wm < 8);
            let t: usize = (wm + 7) as usize;
            assert(t & 0x7 == (t % 8)) by (bit_vector);
            assert(relative == t & 0x7);
            assert(relative == (k + 7) % 8);
        }
        // Relative rank at the start of the word.
        let word_start = (relative_ranks >> (relative * Self::RELATIVE_RANK_BITS)) as usize & Self::RELATIVE_RANK_MASK;

        // Relative rank within the word.
        let within_word = (parent.data.word_unchecked(word) & low_set_unchecked(offset)).count_ones() as usize;

        proof {
            let b = parent@;
            let k = (word % 8) as int;
            let blk = block as int;
            assert(word as int == 8 * blk + k);
            lemma_rank_word(b, word as int, offset as int);
            lemma_pc_mask(b.data[word as int], offset as int, 64);
            assert(self.samples[blk].0 as int == rank_spec(b, 512 * blk));
            if k == 0 {
                assert(relative == 7);
                assert((relative_ranks >> 63) & 0x1FF == 0) by (bit_vector) requires relative_ranks >> 63 == 0;
                assert(64 * (word as int) == 512 * blk);
            } else {
                assert(relative == k - 1);
                assert(64 * (8 * blk + k) == 64 * (word as int));
                assert((((self.samples[blk]).1 >> ((9 * (k - 1)) as u64)) & 0x1FF) as int == rank_spec(b, 64 * (8 * blk + k)) - rank_spec(b, 512 * blk));
            }
            lemma_pc_bounds(b.data[word as int], offset as int);
            lemma_rank_bounds(b, 512 * blk);
            lemma_rank_bounds(b, index as int);
            assert(word_start as int == rank_spec(b, 64 * (word as int)) - rank_spec(b, 512 * blk));
            assert(within_word as int == pc(b.data[word as int], offset as int));
            assert(block_start as int + word_start as int + within_word as int == rank_spec(b, index as int));
        }
        block_start as usize + word_start + within_word
    }
}
}
fn main() {}
