use vstd::prelude::*;
verus! {
global size_of usize == 8;
use vstd::std_specs::bits::*;

// ---------- bit theory ----------
pub open spec fn bit_of(w: u64, i: int) -> bool { ((w >> (i as u64)) & 1) == 1 }

// number of set bits among the lowest n bits of w
pub open spec fn pc(w: u64, n: int) -> int
    decreases n
{
    if n <= 0 { 0 } else { pc(w, n - 1) + if bit_of(w, n - 1) { 1int } else { 0int } }
}

pub open spec fn low_mask(n: int) -> u64 { if n >= 64 { 0xFFFF_FFFF_FFFF_FFFFu64 } else { (((1u64 << (n as u64)) - 1) as u64) } }

// trusted: u64::count_ones is the population count
pub assume_specification [<u64>::count_ones] (x: u64) -> (r: u32) ensures r as int == pc(x, 64);

proof fn lemma_pc_bounds(w: u64, n: int)
    requires 0 <= n
    ensures 0 <= pc(w, n) <= n
    decreases n
{ if n > 0 { lemma_pc_bounds(w, n - 1); } }

proof fn lemma_mask_bit(w: u64, o: int, j: int)
    requires 0 <= o <= 64, 0 <= j < 64
    ensures bit_of(w & low_mask(o), j) == (j < o && bit_of(w, j))
{
    let oo = o as u64; let jj = j as u64;
    if o >= 64 {
        assert(w & 0xFFFF_FFFF_FFFF_FFFFu64 == w) by (bit_vector);
    } else {
        assert(oo < 64 && jj < 64 ==> ((((w & (((1u64 << oo) - 1) as u64)) >> jj) & 1) == 1) == (jj < oo && ((w >> jj) & 1) == 1)) by (bit_vector);
    }
}

// pc of a masked word over n bits
proof fn lemma_pc_mask(w: u64, o: int, n: int)
    requires 0 <= o <= 64, 0 <= n <= 64
    ensures pc(w & low_mask(o), n) == pc(w, if n < o { n } else { o })
    decreases n
{
    if n > 0 {
        lemma_pc_mask(w, o, n - 1);
        lemma_mask_bit(w, o, n - 1);
    }
}

// ---------- the vector ----------
pub struct Bits { pub data: Seq<u64>, pub len: int }

pub open spec fn vbit(b: Bits, i: int) -> bool { bit_of(b.data[i / 64], i % 64) }

pub open spec fn rank_spec(b: Bits, i: int) -> int
    decreases i
{
    if i <= 0 { 0 } else { rank_spec(b, i - 1) + if vbit(b, i - 1) { 1int } else { 0int } }
}

proof fn lemma_rank_word(b: Bits, w: int, o: int)
    requires 0 <= w, 0 <= o <= 64
    ensures rank_spec(b, 64 * w + o) == rank_spec(b, 64 * w) + pc(b.data[w], o)
    decreases o
{
    if o > 0 {
        lemma_rank_word(b, w, o - 1);
        assert((64 * w + o - 1) / 64 == w);
        assert((64 * w + o - 1) % 64 == o - 1);
    }
}



proof fn lemma_rank_bounds(b: Bits, i: int)
    requires 0 <= i
    ensures 0 <= rank_spec(b, i) <= i
    decreases i
{ if i > 0 { lemma_rank_bounds(b, i - 1); } }

proof fn lemma_rank_mono(b: Bits, i: int, j: int)
    requires 0 <= i <= j
    ensures rank_spec(b, i) <= rank_spec(b, j)
    decreases j - i
{ if i < j { lemma_rank_mono(b, i, j - 1); } }

proof fn lemma_pc_mono(w: u64, i: int, j: int)
    requires 0 <= i <= j
    ensures pc(w, i) <= pc(w, j)
    decreases j - i
{ if i < j { lemma_pc_mono(w, i, j - 1); } }

// bits of w at positions >= lo are all zero  ==> pc(w, n) == pc(w, lo) for n >= lo
proof fn lemma_pc_high_zero(w: u64, lo: int, n: int)
    requires 0 <= lo <= n <= 64, w & !low_mask(lo) == 0
    ensures pc(w, n) == pc(w, lo)
    decreases n - lo
{
    if lo < n {
        lemma_pc_high_zero(w, lo, n - 1);
        let j = (n - 1) as u64; let l = lo as u64;
        if lo >= 64 { } else {
            assert(l < 64 && l <= j && j < 64 && (w & !(((1u64 << l) - 1) as u64)) == 0 ==> ((w >> j) & 1) == 0) by (bit_vector);
        }
    }
}

// first set bit at or after lo
proof fn lemma_first_set(w: u64, lo: int, t: int)
    requires 0 <= lo < 64, (w & !low_mask(lo)) != 0, t == u64_trailing_zeros(w & !low_mask(lo))
    ensures lo <= t < 64, bit_of(w, t), pc(w, t) == pc(w, lo)
{
    let m = w & !low_mask(lo);
    axiom_u64_trailing_zeros(m);
    let l = lo as u64; let tt = t as u64;
    assert(tt < 64);
    assert(((m >> tt) & 1) == 1);
    assert(l < 64 && tt < 64 && (((w & !(((1u64 << l) - 1) as u64)) >> tt) & 1) == 1 ==> tt >= l && ((w >> tt) & 1) == 1) by (bit_vector);
    // bits of w in [lo, t) are zero
    assert forall|j: int| lo <= j < t implies !bit_of(w, j) by {
        let jj = j as u64;
        assert(((m >> jj) & 1) == 0);
        assert(l < 64 && jj < 64 && jj >= l && (((w & !(((1u64 << l) - 1) as u64)) >> jj) & 1) == 0 ==> ((w >> jj) & 1) == 0) by (bit_vector);
    }
    lemma_pc_zero_range(w, lo, t);
}

proof fn lemma_pc_zero_range(w: u64, lo: int, t: int)
    requires 0 <= lo <= t <= 64, forall|j: int| lo <= j < t ==> !bit_of(w, j)
    ensures pc(w, t) == pc(w, lo)
    decreases t - lo
{ if lo < t { lemma_pc_zero_range(w, lo, t - 1); } }

// ---------- executable side ----------
pub fn split_offset(bit_offset: usize) -> (r: (usize, usize))
    ensures r.0 == bit_offset / 64, r.1 == bit_offset % 64,
{
    assert(bit_offset >> 6 == bit_offset / 64) by (bit_vector);
    assert(bit_offset & 0b111111 == bit_offset % 64) by (bit_vector);
    (bit_offset >> 6, bit_offset & 0b111111)
}
pub fn bit_offset(index: usize, offset: usize) -> (r: usize)
    requires index * 64 + offset <= usize::MAX, offset < 64
    ensures r == index * 64 + offset
{
    assert(index << 6 == index * 64) by (bit_vector) requires index * 64 <= usize::MAX;
    (index << 6) + offset
}
#[verifier::external_body]
pub unsafe fn low_set_unchecked(n: usize) -> (r: u64)
    requires n <= 64
    ensures r == low_mask(n as int)
{ unimplemented!() }

pub struct BitVector { pub ones: usize, pub len: usize, pub data: Vec<u64> }
impl BitVector {
    pub open spec fn wf(&self) -> bool { self.data.len() == (self.len + 63) / 64 && self.len + 128 <= usize::MAX }
    pub fn len(&self) -> (r: usize) ensures r == self.len { self.len }
}

pub trait Transformation {
    // the transformed bit sequence seen through T; no set bit at or beyond len
    spec fn tbits(parent: &BitVector) -> Bits;
    proof fn tbits_shape(parent: &BitVector)
        requires parent.wf()
        ensures Self::tbits(parent).data.len() == parent.data.len(), Self::tbits(parent).len == parent.len;
    unsafe fn word_unchecked(parent: &BitVector, index: usize) -> (r: u64)
        requires parent.wf(), index < parent.data.len()
        ensures r == Self::tbits(parent).data[index as int];
    fn count_ones(parent: &BitVector) -> usize;
}

pub struct OneIter<'a, T: Transformation + ?Sized> {
    pub parent: &'a BitVector,
    pub next: (usize, usize),
    pub limit: (usize, usize),
    pub _marker: core::marker::PhantomData<T>,
}

impl<'a, T: Transformation + ?Sized> OneIter<'a, T> {
    pub open spec fn inv(&self) -> bool {
        let b = T::tbits(self.parent);
        &&& self.parent.wf()
        &&& self.next.0 <= self.limit.0
        &&& self.next.1 <= self.limit.1 <= self.parent.len
        &&& rank_spec(b, self.next.1 as int) == self.next.0
        &&& rank_spec(b, self.limit.1 as int) == self.limit.0
    }

    fn next(&mut self) -> (r: Option<(usize, usize)>)
        requires old(self).inv()
        ensures final(self).inv(), final(self).parent == old(self).parent, final(self).limit == old(self).limit,
            old(self).next.0 >= old(self).limit.0 ==> r is None && final(self).next == old(self).next,
            old(self).next.0 < old(self).limit.0 ==> r is Some && r->Some_0.0 == old(self).next.0
                && old(self).next.1 <= r->Some_0.1 < old(self).limit.1
                && vbit(T::tbits(old(self).parent), r->Some_0.1 as int)
                && rank_spec(T::tbits(old(self).parent), r->Some_0.1 as int) == old(self).next.0
                && final(self).next == (((old(self).next.0 + 1) as usize), ((r->Some_0.1 + 1) as usize)),
    {
        if self.next.0 >= self.limit.0 {
            None
        } else {
            let (mut index, offset) = split_offset(self.next.1);
            proof {
                T::tbits_shape(self.parent);
                let b = T::tbits(self.parent);
                // next.1 < limit.1, otherwise the ranks would be equal
                if self.next.1 >= self.limit.1 { assert(false); }
            }
            let mut word = unsafe { T::word_unchecked(self.parent, index) & !low_set_unchecked(offset) };
            let ghost index0 = index;
            let ghost b = T::tbits(self.parent);
            proof {
                lemma_rank_word(b, index as int, offset as int);
            }
            while word == 0
                invariant
                    self.inv(), b == T::tbits(self.parent), b.data.len() == self.parent.data.len(),
                    self.next.0 < self.limit.0,
                    index0 <= index < self.parent.data.len(),
                    index == index0 ==> word == b.data[index as int] & !low_mask(offset as int),
                    index > index0 ==> word == b.data[index as int],
                    offset < 64, index0 == self.next.1 / 64, offset == self.next.1 % 64,
                    rank_spec(b, 64 * index + (if index == index0 { offset as int } else { 0 })) == self.next.0,
                decreases self.parent.data.len() - index
            {
                proof {
                    let lo: int = if index == index0 { offset as int } else { 0 };
                    let w = b.data[index as int];
                    if index > index0 { assert(((1u64 << 0u64) - 1) as u64 == 0) by (bit_vector); assert(low_mask(0) == 0); assert(w & !0u64 == w) by (bit_vector); }
                    lemma_pc_high_zero(w, lo, 64);
                    lemma_rank_word(b, index as int, lo);
                    lemma_rank_word(b, index as int, 64);
                    // rank(64*(index+1)) == next.0 < limit.0 == rank(limit.1)  ==> 64*(index+1) < limit.1
                    if 64 * (index + 1) >= self.limit.1 as int {
                        lemma_rank_mono(b, self.limit.1 as int, 64 * (index + 1));
                        assert(false);
                    }
                    lemma_rank_word(b, index as int + 1, 0);
                }
                index += 1;
                word = unsafe { T::word_unchecked(self.parent, index) };
            }
            let offset = word.trailing_zeros() as usize;
            proof {
                let lo: int = if index == index0 { (self.next.1 % 64) as int } else { 0 };
                let w = b.data[index as int];
                if index > index0 { assert(((1u64 << 0u64) - 1) as u64 == 0) by (bit_vector); assert(low_mask(0) == 0); assert(w & !0u64 == w) by (bit_vector); }
                lemma_first_set(w, lo, offset as int);
                lemma_rank_word(b, index as int, lo);
                lemma_rank_word(b, index as int, offset as int);
                let p = 64 * index + offset;
                assert(p / 64 == index as int && p % 64 == offset as int);
                assert(vbit(b, p));
                assert(rank_spec(b, p) == self.next.0);
                assert(rank_spec(b, p + 1) == self.next.0 + 1);
                if p >= self.limit.1 as int { lemma_rank_mono(b, self.limit.1 as int, p); assert(false); }
            }
            let result = (self.next.0, bit_offset(index, offset));
            self.next = (result.0 + 1, result.1 + 1);
            Some(result)
        }
    }
}
}
fn main() {}
