use vstd::prelude::*;
use vstd::std_specs::bits::*;
verus! {
proof fn tz_facts(w: u64)
    requires w != 0
    ensures u64_trailing_zeros(w) < 64,
       (w >> (u64_trailing_zeros(w) as u64)) & 1 == 1,
       forall|j: u64| j < u64_trailing_zeros(w) ==> #[trigger] ((w >> j) & 1) == 0,
{
    axiom_u64_trailing_zeros(w);
}
fn f(w: u64) -> (r: u32)
    requires w != 0
    ensures r < 64
{
    proof { tz_facts(w); }
    w.trailing_zeros()
}
}
fn main() {}
