use vstd::prelude::*;
verus! {
global size_of usize == 8;
pub open spec fn bit_of(w: u64, i: int) -> bool { ((w >> (i as u64)) & 1) == 1 }
pub open spec fn pc(w: u64, n: int) -> int decreases n
{ if n <= 0 { 0 } else { pc(w, n - 1) + if bit_of(w, n - 1) { 1int } else { 0int } } }
pub assume_specification [<u64>::count_ones] (x: u64) -> (r: u32) ensures r as int == pc(x, 64);
proof fn lemma_pc_bounds(w: u64, n: int) requires 0 <= n ensures 0 <= pc(w, n) <= n decreases n
{ if n > 0 { lemma_pc_bounds(w, n - 1); } }

pub open spec fn total(s: Seq<u64>) -> int decreases s.len()
{ if s.len() == 0 { 0 } else { total(s.drop_last()) + pc(s.last(), 64) } }

pub struct RawVector { len: usize, data: Vec<u64> }
impl RawVector {
    pub closed spec fn wf(&self) -> bool { self.data.len() == (self.len + 63) / 64 && self.len + 128 <= usize::MAX }
    pub closed spec fn words(&self) -> Seq<u64> { self.data@ }

    pub fn count_ones(&self) -> (result: usize)
        requires self.wf()
        ensures result as int == total(self.words())
    {
        let mut result: usize = 0;
        for value in it: self.data.iter()
            invariant
                result as int == total(self.data@.take(it.index@)),
                result <= 64 * it.index@,
                self.wf(),
        {
            proof {
                lemma_pc_bounds(*value, 64);
                assert(self.data@.take(it.index@ + 1).drop_last() == self.data@.take(it.index@));
            }
            result += (*value).count_ones() as usize;
        }
        proof { assert(self.data@.take(self.data@.len() as int) == self.data@); }
        result
    }
}
}
fn main() {}
