#![feature(sized_hierarchy)]
use vstd::prelude::*;
verus! {

pub uninterp spec fn is_mapping(addr: usize, bytes: usize) -> bool;
pub uninterp spec fn map_failed() -> usize;

#[verifier::external_body]
pub unsafe fn mmap(addr: *mut u8, len: usize, prot: i32, flags: i32, fd: i32, off: i64) -> (r: *mut u8)
    ensures r@.addr == map_failed() || (is_mapping(r@.addr, len) && r@.addr != 0 && r@.addr % 4096 == 0),
{ unimplemented!() }

#[verifier::external_body]
pub unsafe fn munmap(addr: *mut u8, len: usize) -> (r: i32)
    requires is_mapping(addr@.addr, len),
{ unimplemented!() }

pub assume_specification<T: core::marker::PointeeSized> [<*mut T>::is_null] (p: *mut T) -> (r: bool)
    ensures r == (p@.addr == 0);
pub assume_specification<T: core::marker::PointeeSized, U> [<*mut T>::cast] (p: *mut T) -> (r: *mut U)
    ensures r@.addr == p@.addr;

pub struct MemoryMap {
    ptr: *mut u64,
    len: usize,
}

impl MemoryMap {
    pub closed spec fn wf(&self) -> bool { self.len * 8 <= usize::MAX && is_mapping(self.ptr@.addr, (self.len * 8) as usize) }

    pub fn new(len: usize, fd: i32) -> (r: Result<MemoryMap, u8>)
        requires len % 8 == 0
        ensures r is Ok ==> r->Ok_0.wf()
    {
        let ptr = unsafe { mmap(core::ptr::null_mut(), len, 1, 1, fd, 0) };
        if ptr.is_null() {
            return Err(1);
        }
        Ok(MemoryMap {
            ptr: ptr.cast::<u64>(),
            len: (len + 7) / 8,
        })
    }

    pub fn drop(&mut self)
        requires old(self).wf()
    {
        unsafe {
            let _ = munmap(self.ptr.cast::<u8>(), self.len);
        }
    }
}
}
fn main() {}
