use vstd::prelude::*;
verus! {
global size_of usize == 8;
pub struct B { pub len: usize, pub next: usize, pub cap: usize, pub universe: usize, pub increment: usize, pub high: Vec<u64> }
impl B {
    pub open spec fn wf(&self) -> bool { self.len <= self.cap && self.increment <= 1 && self.next <= self.universe }
    pub fn is_full(&self) -> (r: bool) ensures r == (self.len == self.cap) { self.len == self.cap }
    unsafe fn set_unchecked(&mut self, index: usize)
        requires old(self).wf(), old(self).len < old(self).cap, index < old(self).universe
        ensures final(self).wf(), final(self).len == old(self).len + 1
    {
        self.high.push(index as u64);
        self.len += 1; self.next = index + self.increment;
    }
    pub fn try_set(&mut self, index: usize) -> (r: Result<(), &'static str>)
        requires old(self).wf()
        ensures r is Err ==> *final(self) == *old(self),
                r is Ok ==> final(self).len == old(self).len + 1,
                r is Err <==> (old(self).len == old(self).cap || index < old(self).next || index >= old(self).universe),
    {
        if self.is_full() {
            return Err("The builder is full");
        }
        if index < self.next {
            if self.increment == 0 {
                return Err("Index must be >= previous set position");
            } else {
                return Err("Index must be > previous set position");
            }
        }
        if index >= self.universe {
            return Err("Index is larger than universe size");
        }
        unsafe { self.set_unchecked(index); }
        Ok(())
    }
}
}
fn main() {}
