// Kani harnesses for src/bits.rs.  Appended verbatim to a scratch copy of the file as a child module, so the
// functions under test are the crate's own.  Every harness is loop-free over the FULL input domain stated in
// property C17, i.e. a complete proof of the contract, not a bounded stand-in.
#[cfg(kani)]
mod verif_kani {
    use super::*;

    fn spec_low(n: usize) -> u64 { if n >= 64 { !0u64 } else { (1u64 << n) - 1 } }

    #[kani::proof]
    fn low_set_spec() {
        let n: usize = kani::any();
        kani::assume(n <= 64);
        kani::cover!(n == 64);
        assert_eq!(low_set(n), spec_low(n));
        assert_eq!(unsafe { low_set_unchecked(n) }, spec_low(n));
    }

    #[kani::proof]
    fn high_set_spec() {
        let n: usize = kani::any();
        kani::assume(n <= 64);
        kani::cover!(n == 64);
        let expect = if n == 0 { 0u64 } else { !spec_low(64 - n) };
        assert_eq!(high_set(n), expect);
        assert_eq!(unsafe { high_set_unchecked(n) }, expect);
    }

    #[kani::proof]
    fn bit_len_spec() {
        let n: u64 = kani::any();
        let r = bit_len(n);
        kani::cover!(r == 64);
        assert!(r >= 1 && r <= 64);
        assert!(r == 64 || n < (1u64 << r));
        assert!(r == 1 || n >= (1u64 << (r - 1)));
    }

    #[kani::proof]
    fn reverse_low_spec() {
        let n: u64 = kani::any();
        let bits: usize = kani::any();
        kani::assume(bits >= 1 && bits <= 64);
        kani::cover!(bits == 64);
        let r = reverse_low(n, bits);
        let i: usize = kani::any();
        kani::assume(i < 64);
        if i < bits {
            assert_eq!((r >> i) & 1, (n >> (bits - 1 - i)) & 1);
        } else {
            assert_eq!((r >> i) & 1, 0);
        }
    }

    #[kani::proof]
    fn select_spec() {
        let n: u64 = kani::any();
        let rank: usize = kani::any();
        kani::assume(rank < n.count_ones() as usize);
        kani::cover!(rank == 63);
        let r = unsafe { select(n, rank) };
        assert!(r < 64);
        assert!((n >> r) & 1 == 1);
        assert!((n & spec_low(r)).count_ones() as usize == rank);
    }

    #[kani::proof]
    fn write_read_spec() {
        let mut array: [u64; 4] = kani::any();
        let old = array;
        let bit_offset: usize = kani::any();
        let width: usize = kani::any();
        let value: u64 = kani::any();
        kani::assume(width >= 1 && width <= 64);
        kani::assume(bit_offset <= 191 && bit_offset + width <= 256);
        kani::cover!(bit_offset % 64 + width > 64);
        unsafe { write_int(&mut array, bit_offset, value, width); }
        let r = unsafe { read_int(&array, bit_offset, width) };
        assert_eq!(r, value & spec_low(width));
        let j: usize = kani::any();
        kani::assume(j < 256);
        let bit = (array[j / 64] >> (j % 64)) & 1;
        if j < bit_offset || j >= bit_offset + width {
            assert_eq!(bit, (old[j / 64] >> (j % 64)) & 1);
        } else {
            assert_eq!(bit, (value >> (j - bit_offset)) & 1);
        }
    }

    // read_int alone against the bit-level meaning of the array (not only as the inverse of write_int)
    #[kani::proof]
    fn read_int_spec() {
        let array: [u64; 4] = kani::any();
        let bit_offset: usize = kani::any();
        let width: usize = kani::any();
        kani::assume(width >= 1 && width <= 64);
        kani::assume(bit_offset <= 191 && bit_offset + width <= 256);
        kani::cover!(bit_offset % 64 + width > 64);
        let r = unsafe { read_int(&array, bit_offset, width) };
        let i: usize = kani::any();
        kani::assume(i < 64);
        if i < width {
            let j = bit_offset + i;
            assert_eq!((r >> i) & 1, (array[j / 64] >> (j % 64)) & 1);
        } else {
            assert_eq!((r >> i) & 1, 0);
        }
    }

    #[kani::proof]
    fn rounding_spec() {
        let n: usize = kani::any();
        kani::assume(n <= usize::MAX - 64);
        let w = bits_to_words(n);
        assert!(w as u128 * 64 >= n as u128 && (w as u128) * 64 < n as u128 + 64);
        assert_eq!(round_up_to_word_bits(n) as u128, w as u128 * 64);
        let b = bytes_to_words(n);
        assert!(b as u128 * 8 >= n as u128 && (b as u128) * 8 < n as u128 + 8);
        assert_eq!(round_up_to_word_bytes(n) as u128, b as u128 * 8);
        let (i, o) = split_offset(n);
        assert!(o < 64 && i as u128 * 64 + o as u128 == n as u128);
        assert_eq!(bit_offset(i, o), n);
        assert_eq!(filler_value(true), !0u64);
        assert_eq!(filler_value(false), 0u64);
    }
}
