// Kani harnesses for src/serialize.rs (appended to the file).  skip_option goes through std::io adaptors
// (by_ref / take / copy / sink) that are outside the Verus subset; here it is checked on the real crate with a
// symbolic byte stream of bounded length (status B: bounded by the stream length, stated in units.json).
#[cfg(kani)]
mod verif_kani {
    use super::*;

    #[kani::proof]
    #[kani::unwind(4)]
    fn skip_option_spec() {
        let data: [u8; 24] = kani::any();
        let len: usize = kani::any();
        kani::assume(len <= 24);
        let mut reader: &[u8] = &data[..len];
        let declared = if len >= 8 { u64::from_le_bytes([data[0], data[1], data[2], data[3], data[4], data[5], data[6], data[7]]) } else { 0 };
        kani::assume(declared <= 2);
        kani::cover!(len >= 8 && declared == 2 && len == 24);
        let r = skip_option(&mut reader);
        if len < 8 {
            assert!(r.is_err());
        } else {
            let need = 8 + 8 * declared as usize;
            if len >= need {
                assert!(r.is_ok());
                assert!(reader.len() == len - need);      // moved exactly past the optional structure
            } else {
                assert!(r.is_err());                      // cut short: must be reported (finding F8)
            }
        }
    }
}
