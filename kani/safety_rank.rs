// Kani harness for property C08 on the SAFE RankSupport::rank (appended to src/bit_vector/rank_support.rs as a child module).
// BOUNDED stand-in: vectors of 70 and 128 bits with symbolic content, a support structure with ARBITRARY samples (one or two blocks,
// not necessarily built for this vector), an arbitrary index.  Only memory-safety checks count; a panic ends the path.
#[cfg(kani)]
mod verif_kani_safety_rank {
    use super::*;
    use crate::raw_vector::{RawVector, PushRaw};

    #[kani::proof]
    fn safe_rank_any_index() {
        let full: bool = kani::any();
        let w0: u64 = kani::any(); let w1: u64 = kani::any();
        let mut raw = RawVector::with_capacity(128);
        unsafe { raw.push_int(w0, 64); if full { raw.push_int(w1, 64); } else { raw.push_int(w1, 6); } }
        let b = BitVector::from(raw);
        let mut samples: Vec<(u64, u64)> = Vec::with_capacity(2);
        samples.push((kani::any(), kani::any()));
        if kani::any() { samples.push((kani::any(), kani::any())); }
        let rs = RankSupport { samples };
        let index: usize = kani::any();
        let _ = rs.rank(&b, index);
    }
}
