// Kani harness for src/rl_vector.rs: the values of the two shift-defined code constants that the Verus unit `rl`
// assumes (axiom_rl_consts).
#[cfg(kani)]
mod verif_kani {
    use super::*;
    #[kani::proof]
    fn rl_consts() {
        assert_eq!(RLVector::CODE_MASK, 7);
        assert_eq!(RLVector::CODE_FLAG, 8);
        assert_eq!(RLVector::CODE_SHIFT, 3);
        kani::cover!(true);
    }
}
