// Kani harness for property C08 on the SAFE accessors of IntVector that wrap unchecked code (appended to src/int_vector.rs as a child module).
// BOUNDED stand-in: a vector of 3 items of ANY width 1..=64 with symbolic content; ANY usize index / value.  Only memory-safety checks count;
// a panic (the documented "Index is out of bounds") ends the path.
#[cfg(kani)]
mod verif_kani_safety_iv {
    use super::*;

    #[kani::proof]
    #[kani::unwind(5)]
    fn safe_int_vector_get_set_any_index() {
        let width: usize = kani::any();
        kani::assume(width >= 1 && width <= 64);
        let mut v = IntVector::with_capacity(3, width).unwrap();
        let mut k = 0;
        while k < 3 { v.push(kani::any()); k += 1; }
        let index: usize = kani::any();
        if kani::any() { let _ = v.get(index); } else { v.set(index, kani::any()); }
    }
}
