// Kani harness for property C08 on the SAFE accessors of RawVector (appended to src/raw_vector.rs as a child module).
// BOUNDED stand-in: vectors of 70 and 128 bits with symbolic content; ANY usize offset (bit, word, set_bit).  Only memory-safety checks count; a panic ends the path.
#[cfg(kani)]
mod verif_kani_safety_rv {
    use super::*;

    #[kani::proof]
    fn safe_raw_vector_any_offset() {
        let full: bool = kani::any();
        let w0: u64 = kani::any(); let w1: u64 = kani::any();
        let mut raw = RawVector::with_capacity(128);
        unsafe { raw.push_int(w0, 64); if full { raw.push_int(w1, 64); } else { raw.push_int(w1, 6); } }
        let offset: usize = kani::any();
        let which: u8 = kani::any();
        if which == 0 { let _ = raw.bit(offset); }
        else if which == 1 { let _ = raw.word(offset); }
        else { raw.set_bit(offset, kani::any()); }
    }
}
