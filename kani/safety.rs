// Kani harnesses for property C08 on the SAFE entry points that wrap unchecked code (appended to src/bit_vector.rs as a child module).
// BOUNDED stand-ins: the vectors have the fixed lengths 70 (partial last word) and 128 (full last word) with symbolic content; every
// argument is an arbitrary usize.  Only MEMORY-SAFETY checks count (pointer dereference / unsafe-precondition checks): a panic is the
// documented behaviour for an out-of-range argument and ends the path (the runner ignores failed panic checks of these harnesses).
// What the Verus contracts cannot say - "for arguments OUTSIDE the precondition the function panics instead of reading out of bounds" -
// is what these harnesses look at.
#[cfg(kani)]
mod verif_kani_safety {
    use super::*;
    use crate::raw_vector::{RawVector, PushRaw};

    fn bv(full: bool) -> BitVector {
        let w0: u64 = kani::any(); let w1: u64 = kani::any();
        let mut raw = RawVector::with_capacity(128);
        unsafe { raw.push_int(w0, 64); if full { raw.push_int(w1, 64); } else { raw.push_int(w1, 6); } }
        BitVector::from(raw)
    }

    #[kani::proof]
    fn safe_transformation_word_any_index() {
        let full: bool = kani::any();
        let b = bv(full);
        let index: usize = kani::any();
        if kani::any() { let _ = Complement::word(&b, index); } else { let _ = Identity::word(&b, index); }
    }

    #[kani::proof]
    fn safe_get_any_index() {
        let full: bool = kani::any();
        let b = bv(full);
        let index: usize = kani::any();
        let _ = b.get(index);
        let _ = Complement::bit(&b, index);
    }
}
