#!/usr/bin/env python3
"""setup: nothing is built ahead of time (units are woven from /repo on every run); verify the tools exist."""
import shutil, subprocess, sys, os
ok = True
for tool in ('verus', 'cargo', 'python3'):
    if not shutil.which(tool):
        print('missing tool:', tool); ok = False
p = subprocess.run(['verus', '--version'], stdout=subprocess.PIPE, stderr=subprocess.STDOUT, text=True)
print(p.stdout.strip().split('\n')[0] if p.stdout else 'verus: no version output')
p = subprocess.run(['cargo', 'kani', '--version'], stdout=subprocess.PIPE, stderr=subprocess.STDOUT, text=True, env=dict(os.environ, CARGO_NET_OFFLINE='true'))
print(p.stdout.strip().split('\n')[0] if p.stdout else 'kani: no version output')
for d in ('build', '.cache', 'replays', 'evidence'):
    os.makedirs(os.path.join(os.path.dirname(os.path.dirname(os.path.abspath(__file__))), d), exist_ok=True)
sys.exit(0 if ok else 1)
