#!/usr/bin/env python3
# benign-refactoring campaign: semantics-preserving edits on scratch copies; a check must never exit 1
import os, shutil, subprocess, sys, tempfile, json
EDITS = [
 # (file, old, new, props)
 ('src/rl_vector.rs', "            self.len += len;\n            self.ones += len;\n            self.run.1 += len;", "            self.ones += len;\n            self.run.1 += len;\n            self.len += len;", 'C03 C16 C11'),
 ('src/rl_vector.rs', "            self.len = start + len;\n            self.ones += len;\n            self.run = (start, len);", "            self.run = (start, len);\n            self.ones = self.ones + len;\n            self.len = start + len;", 'C03 C16 C11'),
 ('src/rl_vector.rs', "        self.tail = self.run.0 + self.run.1;\n        self.run = (self.len(), 0);", "        let end = self.run.0 + self.run.1;\n        self.run = (self.len(), 0);\n        self.tail = end;", 'C03 C07 C16'),
 ('src/rl_vector.rs', "        if self.run.1 <= 0 {\n            return;\n        }", "        if 0 >= self.run.1 {\n            return;\n        }", 'C03 C07'),
 ('src/rl_vector.rs', "            self.offset = offset;\n            self.limit = limit;\n            self.pos.0 += len + 1;\n            self.pos.1 = start + len + 1;", "            self.pos.1 = start + len + 1;\n            self.pos.0 += len + 1;\n            self.limit = limit;\n            self.offset = offset;", 'C03 C10'),
 ('src/rl_vector.rs', "            self.pos.0 += 1; self.pos.1 += 1;", "            self.pos.1 += 1; self.pos.0 += 1;", 'C03 C10'),
 ('src/rl_vector.rs', "            if start > index {\n                return false;\n            }\n            if index < iter.offset() {\n                return true;\n            }", "            if index < start {\n                return false;\n            }\n            if iter.offset() > index {\n                return true;\n            }", 'C03'),
 ('src/rl_vector.rs', "            if start >= index {\n                return iter.rank() - len;\n            }", "            if index <= start {\n                return iter.rank() - len;\n            }", 'C03 C09'),
 ('src/rl_vector.rs', "        while iter.rank() <= rank {\n            let _ = iter.next();\n        }\n        Some(iter.offset_for(rank))", "        while rank >= iter.rank() {\n            let _ = iter.next();\n        }\n        Some(iter.offset_for(rank))", 'C03 C09'),
 ('src/rl_vector.rs', "        if index >= self.len() {\n            return RunIter::empty_iter(self);\n        }\n\n        let range = self.rank_index.range(index);", "        if self.len() <= index {\n            return RunIter::empty_iter(self);\n        }\n\n        let range = self.rank_index.range(index);", 'C03 C09'),
 ('src/rl_vector.rs', "        let len = usize::load(reader)?;\n        let ones = usize::load(reader)?;\n        let samples = IntVector::load(reader)?;", "        let len: usize = usize::load(reader)?;\n        let ones: usize = usize::load(reader)?;\n        let samples = IntVector::load(reader)?;", 'C06 C14'),
 ('src/rl_vector.rs', "        if sample_blocks != data_blocks {", "        if data_blocks != sample_blocks {", 'C06 C14'),
 ('src/rl_vector.rs', "        self.len.size_in_elements() +\n        self.ones.size_in_elements() +", "        self.ones.size_in_elements() +\n        self.len.size_in_elements() +", 'C06'),
 ('src/rl_vector/index.rs', "                offset += 1;\n                prev = value;\n                next = iter.next();", "                prev = value;\n                offset += 1;\n                next = iter.next();", 'C03'),
 ('src/rl_vector/index.rs', "        if len == 0 || universe == 0 {", "        if universe == 0 || len == 0 {", 'C03'),
 ('src/wavelet_matrix/wm_core.rs', "        if width == 0 || width > bits::WORD_BITS {", "        if width > bits::WORD_BITS || width == 0 {", 'C06 C07'),
 ('src/wavelet_matrix/wm_core.rs', "                    if bv.len() != len {", "                    if len != bv.len() {", 'C06 C14'),
 ('src/wavelet_matrix/wm_core.rs', "        let mut result = 1; // Width.\n        for bv in self.levels.iter() {\n            result += bv.size_in_elements();\n        }\n        result", "        let mut result = 1; // Width.\n        for bv in self.levels.iter() {\n            result = result + bv.size_in_elements();\n        }\n        result", 'C06'),
 ('src/wavelet_matrix/wm_core.rs', "            if self.levels[level].get(index) {\n                index = self.map_down_one(index, level);\n                value += self.bit_value(level);", "            if self.levels[level].get(index) {\n                value += self.bit_value(level);\n                index = self.map_down_one(index, level);", 'C04'),
 ('src/int_vector.rs', "            let result = Some(self.parent.get(self.index));\n            self.index += 1;\n            result", "            let result = Some(self.parent.get(self.index));\n            self.index = self.index + 1;\n            result", 'C10'),
 ('src/rl_vector.rs', "            samples.push(*ones as u64);\n            samples.push(*bits as u64);\n        }\n\n        RLVector {", "            let (o, b) = (*ones as u64, *bits as u64);\n            samples.push(o);\n            samples.push(b);\n        }\n\n        RLVector {", 'C03 C07'),
 ('src/rl_vector.rs', "        let mut builder = RLBuilder::new();\n        for (_, index) in source.one_iter() {", "        let mut builder = RLBuilder::default();\n        for (_, index) in source.one_iter() {", 'C11'),
]
res = []
only = sys.argv[1:]
for n, (f, old, new, props) in enumerate(EDITS):
    if only and str(n) not in only: continue
    d = tempfile.mkdtemp(prefix='benign-')
    try:
        for x in ('src', 'Cargo.toml', 'Cargo.lock'):
            p = os.path.join('/repo', x)
            if os.path.isdir(p): shutil.copytree(p, os.path.join(d, x))
            else: shutil.copy(p, d)
        p = os.path.join(d, f); s = open(p).read()
        if s.count(old) != 1:
            print(n, f, 'EDIT DOES NOT APPLY (count %d)' % s.count(old), flush=True); continue
        open(p, 'w').write(s.replace(old, new))
        b = subprocess.run('cargo build --offline -q 2>&1 | tail -3', shell=True, cwd=d, stdout=subprocess.PIPE, text=True)
        if 'error' in b.stdout:
            print(n, f, 'DOES NOT COMPILE', b.stdout[:200], flush=True); continue
        out = []
        for pr in props.split():
            r = subprocess.run([os.path.join(os.path.dirname(os.path.dirname(os.path.dirname(os.path.abspath(__file__)))), 'check'), pr, '--tier', 'quick'], env=dict(os.environ, VERIF_REPO=d, VERIF_NO_REPLAYER='1'), stdout=subprocess.PIPE, stderr=subprocess.STDOUT, text=True)
            und = [l.strip()[:160] for l in r.stdout.split('\n') if 'UNDECIDED' in l or 'failed obligation' in l][:2]
            out.append((pr, r.returncode, und))
        bad = [o for o in out if o[1] == 1]
        print(n, f, 'ALARM' if bad else 'ok', out, flush=True)
        res.append((n, out))
    finally:
        shutil.rmtree(d, ignore_errors=True)
print('alarms:', [n for n, out in res if any(o[1] == 1 for o in out)])
