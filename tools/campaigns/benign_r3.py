#!/usr/bin/env python3
# benign campaign 5: behaviour-preserving edits of the code proved in session 3 (start_offsets, wavelet_matrix_from!, init_support, complement, skip_option, String, RawVectorMapper::int, extend)
import os, shutil, subprocess, tempfile
E = [
 # WaveletMatrix::start_offsets
 ('src/wavelet_matrix.rs', 'C04', 'counts[value as usize].1 += 1;', 'counts[value as usize].1 = counts[value as usize].1 + 1;'),
 ('src/wavelet_matrix.rs', 'C04', 'let mut cumulative = 0;', 'let mut cumulative: usize = 0;'),
 ('src/wavelet_matrix.rs', 'C04', 'if *count == 0 {\n                *count = len;\n            } else {', 'if 0 == *count {\n                *count = len;\n            } else {'),
 ('src/wavelet_matrix.rs', 'C04', 'let increment = *count;\n                *count = cumulative;\n                cumulative += increment;', 'let increment = *count;\n                *count = cumulative;\n                cumulative = cumulative + increment;'),
 ('src/wavelet_matrix.rs', 'C04', 'for i in 0..=max_value {\n            counts.push((i, 0));', 'for symbol in 0..=max_value {\n            counts.push((symbol, 0));'),
 ('src/wavelet_matrix.rs', 'C04', 'let mut counts: Vec<(u64, usize)> = Vec::with_capacity((max_value + 1) as usize);', 'let mut counts: Vec<(u64, usize)> = Vec::new();'),
 ('src/wavelet_matrix.rs', 'C04', 'counts.sort_unstable_by_key(|(value, _)| *value);', 'counts.sort_unstable_by_key(|(symbol, _)| *symbol);'),
 # wavelet_matrix_from!
 ('src/wavelet_matrix.rs', 'C04', 'let len = source.len();\n                let max_value = source.iter().cloned().max().unwrap_or(0);', 'let max_value = source.iter().cloned().max().unwrap_or(0);\n                let len = source.len();'),
 ('src/wavelet_matrix.rs', 'C04', 'WaveletMatrix { len, data, first, }', 'WaveletMatrix { len: len, data: data, first: first, }'),
 # init_support / complement
 ('src/wavelet_matrix/wm_core.rs', 'C04 C06', 'bv.enable_rank();\n            bv.enable_select();', 'bv.enable_select();\n            bv.enable_rank();'),
 ('src/raw_vector.rs', 'C05', 'for word in result.data.iter_mut() {\n            *word = !*word;', 'for w in result.data.iter_mut() {\n            *w = !*w;'),
 ('src/raw_vector.rs', 'C05', '*word = !*word;', '*word = *word ^ !0u64;'),
 # skip_option / String
 ('src/serialize.rs', 'C14 C19', 'let bytes = (elements * bits::WORD_BYTES) as u64;', 'let bytes = (bits::WORD_BYTES * elements) as u64;'),
 ('src/serialize.rs', 'C14 C19', 'if copied != bytes {', 'if bytes != copied {'),
 ('src/serialize.rs', 'C06', 'let bytes = Vec::<u8>::load(reader)?;\n        String::from_utf8(bytes)', 'let raw = Vec::<u8>::load(reader)?;\n        String::from_utf8(raw)'),
 # RawVectorMapper::int, extend at narrow types
 ('src/raw_vector.rs', 'C13', 'if width == 0 {\n            return 0;\n        }\n        bits::read_int(&self.data, bit_offset, width)', 'if 0 == width {\n            return 0;\n        }\n        bits::read_int(&self.data, bit_offset, width)'),
 ('src/int_vector.rs', 'C05 C12', 'for value in iter {\n                    self.push(value as <Self as Vector>::Item);', 'for item in iter {\n                    self.push(item as <Self as Vector>::Item);'),
]
alarms = []
for n, (f, props, old, new) in enumerate(E):
    d = tempfile.mkdtemp(prefix='benign-')
    try:
        for x in ('src', 'Cargo.toml', 'Cargo.lock'):
            p = os.path.join('/repo', x)
            if os.path.isdir(p): shutil.copytree(p, os.path.join(d, x))
            else: shutil.copy(p, d)
        p = os.path.join(d, f); s = open(p).read()
        if s.count(old) != 1:
            print(n, 'EDIT DOES NOT APPLY', s.count(old), flush=True); continue
        open(p, 'w').write(s.replace(old, new))
        bld = subprocess.run('cargo build --offline -q 2>&1 | tail -3', shell=True, cwd=d, stdout=subprocess.PIPE, text=True)
        if 'error' in bld.stdout:
            print(n, f, 'DOES NOT COMPILE', bld.stdout[-300:], flush=True); continue
        out = []
        for pr in props.split():
            r = subprocess.run([os.path.join(os.path.dirname(os.path.dirname(os.path.dirname(os.path.abspath(__file__)))), 'check'), pr, '--tier', 'quick'], env=dict(os.environ, VERIF_REPO=d, VERIF_NO_REPLAYER='1'), stdout=subprocess.PIPE, stderr=subprocess.STDOUT, text=True)
            und = [l.strip()[:160] for l in r.stdout.split('\n') if 'UNDECIDED' in l or 'failed obligation' in l][:2]
            out.append((pr, r.returncode, und))
        bad = [o for o in out if o[1] == 1]
        print(n, f, repr(new)[:50], 'ALARM' if bad else 'ok', [(o[0], o[1]) for o in out], [o[2] for o in out if o[1]], flush=True)
        if bad: alarms.append(n)
    finally:
        shutil.rmtree(d, ignore_errors=True)
print('edits', len(E), 'alarms:', alarms)
