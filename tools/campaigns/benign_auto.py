#!/usr/bin/env python3
# automated benign campaign: `x += e;` -> `x = x + e;`, `x -= e;` -> `x = x - e;`, `if a == b {` -> `if b == a {` (simple operands), one edit at a time
import os, re, shutil, subprocess, sys, tempfile, random
FILES = {
 'src/bit_vector.rs': 'C01 C10', 'src/bit_vector/rank_support.rs': 'C01', 'src/bit_vector/select_support.rs': 'C01 C02',
 'src/sparse_vector.rs': 'C02 C15 C10', 'src/raw_vector.rs': 'C05 C12', 'src/int_vector.rs': 'C05 C12', 'src/serialize.rs': 'C06 C14 C13',
 'src/bits.rs': 'C17', 'src/wavelet_matrix/wm_core.rs': 'C04', 'src/wavelet_matrix.rs': 'C04', 'src/ops.rs': 'C04 C10', 'src/rl_vector.rs': 'C03',
}
random.seed(int(sys.argv[2]) if len(sys.argv) > 2 else 7)
cands = []
for f, props in FILES.items():
    s = open('/repo/' + f).read()
    # stop at the test module
    cut = s.find('#[cfg(test)]')
    body = s if cut < 0 else s[:cut]
    for m in re.finditer(r'\n( +)([A-Za-z_][A-Za-z0-9_\.]*(?:\[[^\]\n]+\])?) (\+|-)= ([^;\n]+);', body):
        if m.group(0).lstrip().startswith('//'): continue
        new = '\n%s%s = %s %s (%s);' % (m.group(1), m.group(2), m.group(2), m.group(3), m.group(4))
        cands.append((f, props, m.start(), m.end(), new, 'opassign'))
    for m in re.finditer(r'if ([A-Za-z_][A-Za-z0-9_\.]*(?:\(\))?) (==|!=) ([A-Za-z_0-9][A-Za-z0-9_\.]*(?:\(\))?) \{', body):
        new = 'if %s %s %s {' % (m.group(3), m.group(2), m.group(1))
        cands.append((f, props, m.start(), m.end(), new, 'commute'))
random.shuffle(cands)
N = int(sys.argv[1]) if len(sys.argv) > 1 else 40
alarms = []
for n, (f, props, a, b, new, kind) in enumerate(cands[:N]):
    d = tempfile.mkdtemp(prefix='benign-')
    try:
        for x in ('src', 'Cargo.toml', 'Cargo.lock'):
            p = os.path.join('/repo', x)
            if os.path.isdir(p): shutil.copytree(p, os.path.join(d, x))
            else: shutil.copy(p, d)
        p = os.path.join(d, f); s = open(p).read()
        old = s[a:b]
        open(p, 'w').write(s[:a] + new + s[b:])
        line = s.count('\n', 0, a) + 2
        bld = subprocess.run('cargo build --offline -q 2>&1 | tail -3', shell=True, cwd=d, stdout=subprocess.PIPE, text=True)
        if 'error' in bld.stdout:
            print(n, f, line, kind, 'DOES NOT COMPILE', flush=True); continue
        out = []
        for pr in props.split():
            r = subprocess.run([os.path.join(os.path.dirname(os.path.dirname(os.path.dirname(os.path.abspath(__file__)))), 'check'), pr, '--tier', 'quick'], env=dict(os.environ, VERIF_REPO=d, VERIF_NO_REPLAYER='1'), stdout=subprocess.PIPE, stderr=subprocess.STDOUT, text=True)
            und = [l.strip()[:140] for l in r.stdout.split('\n') if 'UNDECIDED' in l or 'failed obligation' in l][:2]
            out.append((pr, r.returncode, und))
        bad = [o for o in out if o[1] == 1]
        print(n, f, line, kind, repr(old.strip())[:60], 'ALARM' if bad else 'ok', [(o[0], o[1]) for o in out], [o[2] for o in out if o[1]], flush=True)
        if bad: alarms.append((n, f, line, old.strip(), new.strip()))
    finally:
        shutil.rmtree(d, ignore_errors=True)
print('candidates', len(cands), 'alarms:', alarms)
