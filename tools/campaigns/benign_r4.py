#!/usr/bin/env python3
# benign campaign 6: behaviour-preserving edits of the code proved in session 4 (predecessor / advance_if, mapped constructors, accessors, select_unchecked, try_from_iter, count_zeros, padding, writers, conversions)
import os, shutil, subprocess, tempfile
E = [
 # RLVector::predecessor / RunIter::advance_if (R21)
 ('src/rl_vector.rs', 'C03 C09', 'let rank = if iter.offset() > value { iter.rank_at(value) } else { iter.rank() - 1 };', 'let rank = if value < iter.offset() { iter.rank_at(value) } else { iter.rank() - 1 };'),
 ('src/rl_vector.rs', 'C03', 'let mut offset = self.offset;\n        let mut limit = self.limit;', 'let mut limit = self.limit;\n        let mut offset = self.offset;'),
 ('src/rl_vector.rs', 'C03 C10', 'iterate = start <= value;\n                return iterate;', 'iterate = value >= start;\n                return iterate;'),
 ('src/rl_vector.rs', 'C03', 'let value = cmp::min(value, self.len() - 1);\n\n        // Find the block that would contain the value. Then advance', 'let value = if value < self.len() { value } else { self.len() - 1 };\n\n        // Find the block that would contain the value. Then advance'),
 # mapped constructors (mm_valid clause)
 ('src/int_vector.rs', 'C13', 'let len = slice[offset] as usize;\n        let width = slice[offset + 1] as usize;\n        let data = RawVectorMapper::new(map, offset + 2)?;', 'let width = slice[offset + 1] as usize;\n        let len = slice[offset] as usize;\n        let data = RawVectorMapper::new(map, offset + 2)?;'),
 ('src/int_vector.rs', 'C13', 'if offset.saturating_add(1) >= map.len() {\n            return Err(Error::new(ErrorKind::UnexpectedEof, "The starting offset is out of range"));\n        }\n        let slice: &[u64] = map.as_ref();\n        let len = slice[offset] as usize;', 'if map.len() <= offset.saturating_add(1) {\n            return Err(Error::new(ErrorKind::UnexpectedEof, "The starting offset is out of range"));\n        }\n        let slice: &[u64] = map.as_ref();\n        let len = slice[offset] as usize;'),
 # accessors
 ('src/int_vector.rs', 'C05', 'fn as_ref(&self) -> &RawVector {\n        &(self.data)', 'fn as_ref(&self) -> &RawVector {\n        &self.data'),
 ('src/serialize.rs', 'C13', 'fn index(&self, index: usize) -> &Self::Output {\n        &self.data[index]\n    }\n}\n\n#[cfg(not(target_family = "wasm"))]\nimpl<\'a> MemoryMapped<\'a> for MappedBytes', 'fn index(&self, i: usize) -> &Self::Output {\n        &self.data[i]\n    }\n}\n\n#[cfg(not(target_family = "wasm"))]\nimpl<\'a> MemoryMapped<\'a> for MappedBytes'),
 # select_unchecked, try_from_iter, count_zeros
 ('src/bit_vector/select_support.rs', 'C01 C02', 'result += self.long.get(ptr + offset) as usize;\n        } else {\n            let (block, mut relative_rank) = (offset / Self::BLOCK_SIZE, offset & Self::BLOCK_MASK);\n            result += self.short.get(ptr + block) as usize;\n            // Search within the block until we find the set bit of relative rank `relative_rank`\n            // from the start of the current word.\n            if relative_rank > 0 {\n                let (mut word, word_offset) = bits::split_offset(result);\n                let mut value: u64 = T::word_unchecked', 'result = result + self.long.get(ptr + offset) as usize;\n        } else {\n            let (block, mut relative_rank) = (offset / Self::BLOCK_SIZE, offset & Self::BLOCK_MASK);\n            result = result + self.short.get(ptr + block) as usize;\n            // Search within the block until we find the set bit of relative rank `relative_rank`\n            // from the start of the current word.\n            if relative_rank > 0 {\n                let (mut word, word_offset) = bits::split_offset(result);\n                let mut value: u64 = T::word_unchecked'),
 ('src/sparse_vector.rs', 'C15', 'let (ones, _) = iter.size_hint();\n        let universe = if let Some(pos) = iter.next_back() { pos + 1 } else { 0 };\n        let mut builder = SparseBuilder::multiset(universe, ones);', 'let (count, _) = iter.size_hint();\n        let universe = if let Some(pos) = iter.next_back() { pos + 1 } else { 0 };\n        let mut builder = SparseBuilder::multiset(universe, count);'),
 ('src/sparse_vector.rs', 'C02 C09', 'if self.count_ones() >= self.len() {\n            0\n        } else {\n            self.len() - self.count_ones()\n        }', 'if self.len() <= self.count_ones() {\n            0\n        } else {\n            self.len() - self.count_ones()\n        }'),
 ('src/sparse_vector.rs', 'C02 C09', 'if self.count_ones() >= self.len() {\n            0\n        } else {\n            self.len() - self.count_ones()\n        }', 'self.len().saturating_sub(self.count_ones())'),
 # Vec<u8>::load padding, writers
 ('src/serialize.rs', 'C06 C14', 'let padded_len = bits::round_up_to_word_bytes(value.len());\n        if padded_len > value.len() {\n            let mut padding = [0u8; bits::WORD_BYTES];\n            reader.read_exact(&mut padding[0..padded_len - value.len()])?;', 'let padded_len = bits::round_up_to_word_bytes(value.len());\n        if value.len() < padded_len {\n            let mut padding = [0u8; bits::WORD_BYTES];\n            reader.read_exact(&mut padding[0..padded_len - value.len()])?;'),
 ('src/raw_vector.rs', 'C12', 'self.flush(FlushMode::Final)?;\n            self.write_header(header)?;\n            self.file = None', 'self.flush(FlushMode::Final)?;\n            self.write_header(header)?;\n            self.file = None;'),
 ('src/int_vector.rs', 'C12 C07', 'impl Drop for IntVectorWriter {\n    fn drop(&mut self) {\n        let _ = self.close();', 'impl Drop for IntVectorWriter {\n    fn drop(&mut self) {\n        let _unused = self.close();'),
 # conversions
 ('src/support.rs', 'C11', '$target::copy_bit_vec(&source)', '<$target>::copy_bit_vec(&source)'),
]
alarms = []
for n, (f, props, old, new) in enumerate(E):
    d = tempfile.mkdtemp(prefix='benign-')
    try:
        for x in ('src', 'Cargo.toml', 'Cargo.lock'):
            p = os.path.join('/repo', x)
            if os.path.isdir(p): shutil.copytree(p, os.path.join(d, x))
            else: shutil.copy(p, d)
        p = os.path.join(d, f); s = open(p).read()
        if s.count(old) != 1:
            print(n, 'EDIT DOES NOT APPLY', s.count(old), flush=True); continue
        open(p, 'w').write(s.replace(old, new))
        bld = subprocess.run('cargo build --offline -q 2>&1 | tail -3', shell=True, cwd=d, stdout=subprocess.PIPE, text=True)
        if 'error' in bld.stdout:
            print(n, f, 'DOES NOT COMPILE', bld.stdout[-300:], flush=True); continue
        out = []
        for pr in props.split():
            r = subprocess.run([os.path.join(os.path.dirname(os.path.dirname(os.path.dirname(os.path.abspath(__file__)))), 'check'), pr, '--tier', 'quick'], env=dict(os.environ, VERIF_REPO=d, VERIF_NO_REPLAYER='1'), stdout=subprocess.PIPE, stderr=subprocess.STDOUT, text=True)
            und = [l.strip()[:160] for l in r.stdout.split('\n') if 'UNDECIDED' in l or 'failed obligation' in l][:2]
            out.append((pr, r.returncode, und))
        bad = [o for o in out if o[1] == 1]
        print(n, f, repr(new)[:50], 'ALARM' if bad else 'ok', [(o[0], o[1]) for o in out], [o[2] for o in out if o[1]], flush=True)
        if bad: alarms.append(n)
    finally:
        shutil.rmtree(d, ignore_errors=True)
print('edits', len(E), 'alarms:', alarms)
