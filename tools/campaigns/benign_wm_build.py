#!/usr/bin/env python3
# benign campaign 4: hand-made behaviour-preserving edits of WMCore::from (wm_core_from!) and SparseBuilder::extend
import os, shutil, subprocess, tempfile
E = [
 ('src/wavelet_matrix/wm_core.rs', 'C04', '1 << (width - 1 - level);', '1 << (width - level - 1);'),
 ('src/wavelet_matrix/wm_core.rs', 'C04', 'let mut zeros: Vec<$t> = Vec::new();\n                    let mut ones: Vec<$t> = Vec::new();', 'let mut ones: Vec<$t> = Vec::new();\n                    let mut zeros: Vec<$t> = Vec::new();'),
 ('src/wavelet_matrix/wm_core.rs', 'C04', '''if value & bit_value != 0 {
                            ones.push(*value);
                            raw_data.push_bit(true);
                        } else {
                            zeros.push(*value);
                            raw_data.push_bit(false);
                        }''', '''if value & bit_value == 0 {
                            zeros.push(*value);
                            raw_data.push_bit(false);
                        } else {
                            ones.push(*value);
                            raw_data.push_bit(true);
                        }'''),
 ('src/wavelet_matrix/wm_core.rs', 'C04', 'let mut raw_data = RawVector::with_capacity(source.len());', 'let mut raw_data = RawVector::new();'),
 ('src/wavelet_matrix/wm_core.rs', 'C04', '''ones.push(*value);
                            raw_data.push_bit(true);''', '''raw_data.push_bit(true);
                            ones.push(*value);'''),
 ('src/wavelet_matrix/wm_core.rs', 'C04', 'let width = bits::bit_len(max_value as u64);', 'let width = bits::bit_len(max_value as u64 | 1);'),
 ('src/wavelet_matrix/wm_core.rs', 'C04', 'let mut result = WMCore { levels, };', 'let mut result = WMCore { levels: levels, };'),
 ('src/sparse_vector.rs', 'C16 C02', 'for index in iter {\n            self.set(index);', 'for position in iter {\n            self.set(position);'),
 ('src/sparse_vector.rs', 'C16 C02', 'for index in iter {\n            self.set(index);', 'for index in iter {\n            self.try_set(index).unwrap();'),
]
alarms = []
for n, (f, props, old, new) in enumerate(E):
    d = tempfile.mkdtemp(prefix='benign-')
    try:
        for x in ('src', 'Cargo.toml', 'Cargo.lock'):
            p = os.path.join('/repo', x)
            if os.path.isdir(p): shutil.copytree(p, os.path.join(d, x))
            else: shutil.copy(p, d)
        p = os.path.join(d, f); s = open(p).read()
        if s.count(old) != 1:
            print(n, 'EDIT DOES NOT APPLY', s.count(old), flush=True); continue
        open(p, 'w').write(s.replace(old, new))
        bld = subprocess.run('cargo build --offline -q 2>&1 | tail -3', shell=True, cwd=d, stdout=subprocess.PIPE, text=True)
        if 'error' in bld.stdout:
            print(n, f, 'DOES NOT COMPILE', bld.stdout[-300:], flush=True); continue
        out = []
        for pr in props.split():
            r = subprocess.run([os.path.join(os.path.dirname(os.path.dirname(os.path.dirname(os.path.abspath(__file__)))), 'check'), pr, '--tier', 'quick'], env=dict(os.environ, VERIF_REPO=d, VERIF_NO_REPLAYER='1'), stdout=subprocess.PIPE, stderr=subprocess.STDOUT, text=True)
            und = [l.strip()[:160] for l in r.stdout.split('\n') if 'UNDECIDED' in l or 'failed obligation' in l][:2]
            out.append((pr, r.returncode, und))
        bad = [o for o in out if o[1] == 1]
        print(n, f, repr(new)[:50], 'ALARM' if bad else 'ok', [(o[0], o[1]) for o in out], [o[2] for o in out if o[1]], flush=True)
        if bad: alarms.append(n)
    finally:
        shutil.rmtree(d, ignore_errors=True)
print('edits', len(E), 'alarms:', alarms)
