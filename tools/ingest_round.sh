#!/bin/sh
# usage: tools/ingest_round.sh <property id> <suffix> [dir]  — confirm the changes a seeding sub-agent left in <dir>/out/{1,2,3} and keep the confirmed ones as seeded/<id><suffix>-k
p=$1; sfx=$2; src=${3:-/tmp/wt3/$p}
stage=/tmp/seedstage; mkdir -p $stage
log=/tmp/confirm_$p$sfx.log; : > $log
for k in 1 2 3 4; do
  [ -f "$src/out/$k/patch.diff" ] || continue
  d=$stage/$p$sfx-$k; rm -rf $d; cp -r "$src/out/$k" $d
  /verif/tools/confirm_seed.sh $d /tmp/wt/confirm_$p >> $log 2>&1
done
cat $log | grep -A3 "^RESULT"
python3 /verif/tools/seed_ingest.py $log
git -C /repo worktree remove --force /tmp/wt/confirm_$p 2>/dev/null
rm -rf $stage/$p$sfx-*
