#!/usr/bin/env python3
"""copy confirmed seeds from a scratch dir into /verif/seeded/<id>/ (patch.diff, demo.rs, meta.json)"""
import json, os, re, shutil, sys
log = open(sys.argv[1]).read()
for m in re.finditer(r'RESULT (\S+)\n\s*suite with change : (.*)\n\s*demo with change  : (.*)\n\s*demo without      : (.*)\n', log):
    d, suite, withc, without = m.groups()
    sid = os.path.basename(d)
    ok = 'ok. 147 passed' in suite and 'FAILED' in withc and 'test result: ok' in without
    if not ok:
        print('NOT confirmed:', sid, suite, withc, without); continue
    out = os.path.join('/verif/seeded', sid)
    os.makedirs(out, exist_ok=True)
    shutil.copy(os.path.join(d, 'patch.diff'), out)
    shutil.copy(os.path.join(d, 'demo.rs'), os.path.join(out, 'demo.rs'))
    meta = json.load(open(os.path.join(d, 'meta.json')))
    meta['author'] = 'independent sub-agent given only the property text and a scratch worktree'
    meta['confirmed_by_me'] = {'how': 'tools/confirm_seed.sh in a scratch worktree of /repo: full lib suite with the change, demo with and without the change',
                               'suite_with_change': suite, 'demo_with_change': withc, 'demo_without_change': without}
    json.dump(meta, open(os.path.join(out, 'meta.json'), 'w'), indent=1)
    print('ingested', sid)
