#!/bin/sh
# usage: confirm_seed.sh <seed dir> [worktree]  — confirms (a) suite passes with the change, (b) demo fails with it and passes without
seed=$1; wt=${2:-/tmp/wt/confirm}
[ -d "$wt" ] || git -C /repo worktree add -q --detach "$wt" HEAD
cd "$wt" || exit 3
git checkout -q -- . ; rm -rf tests
git apply "$seed/patch.diff" || { echo "RESULT $seed: patch does not apply"; exit 3; }
suite=$(cargo test --offline --lib 2>&1 | grep "^test result" | head -1)
mkdir -p tests; cp "$seed/demo.rs" tests/demo.rs
cargo test --offline --test demo > /tmp/confirm_demo.out 2>&1; wrc=$?
with="exit=$wrc $(grep -E "^test result|SIGABRT|SIGSEGV" /tmp/confirm_demo.out | head -1)"
if [ $wrc -ne 0 ] && ! echo "$with" | grep -q "test result"; then with="$with FAILED(abort)"; fi
git checkout -q -- .
without=$(cargo test --offline --test demo 2>&1 | grep "^test result" | head -1)
rm -rf tests
echo "RESULT $seed"
echo "  suite with change : $suite"
echo "  demo with change  : $with"
echo "  demo without      : $without"
