"""Small Rust-aware scanner: locates items by path in a source file and copies their text verbatim.

Nothing here is keyed by line number.  Comments, string literals and char literals are masked so that
braces and keywords inside them are never seen.
"""
import re


class Lost(Exception):
    """an item path / anchor no longer exists in the source: the unit is undecided (exit 2), never a violation"""


def code_mask(src):
    n = len(src)
    mask = bytearray(b'\x01') * n
    i = 0
    while i < n:
        c = src[i]
        if c == '/' and src.startswith('//', i):
            j = src.find('\n', i)
            j = n if j < 0 else j
            mask[i:j] = b'\x00' * (j - i)
            i = j
            continue
        if c == '/' and src.startswith('/*', i):
            depth = 1
            j = i + 2
            while j < n and depth:
                if src.startswith('/*', j):
                    depth += 1
                    j += 2
                elif src.startswith('*/', j):
                    depth -= 1
                    j += 2
                else:
                    j += 1
            mask[i:j] = b'\x00' * (j - i)
            i = j
            continue
        if c == '"':
            j = i + 1
            while j < n and src[j] != '"':
                j += 2 if src[j] == '\\' else 1
            j = min(j + 1, n)
            mask[i:j] = b'\x00' * (j - i)
            i = j
            continue
        if c == 'r' and (i == 0 or not (src[i - 1].isalnum() or src[i - 1] == '_')):
            m = re.match(r'r(#*)"', src[i:i + 12])
            if m:
                close = '"' + m.group(1)
                j = src.find(close, i + len(m.group(0)))
                j = n if j < 0 else j + len(close)
                mask[i:j] = b'\x00' * (j - i)
                i = j
                continue
        if c == "'":
            m = re.match(r"'(\\.[^']*|[^'\\])'", src[i:i + 12])
            if m:
                ln = len(m.group(0))
                mask[i:i + ln] = b'\x00' * ln
                i += ln
                continue
        i += 1
    return mask


class Source:
    def __init__(self, path, text=None):
        self.path = path
        self.text = open(path).read() if text is None else text
        self.mask = code_mask(self.text)

    def line_of(self, pos):
        return self.text.count('\n', 0, pos) + 1

    def match_close(self, open_pos, open_ch='{', close_ch='}'):
        depth = 0
        t, m = self.text, self.mask
        for i in range(open_pos, len(t)):
            if not m[i]:
                continue
            if t[i] == open_ch:
                depth += 1
            elif t[i] == close_ch:
                depth -= 1
                if depth == 0:
                    return i
        raise Lost('unbalanced braces in %s' % self.path)

    def finditer_code(self, regex, lo=0, hi=None):
        hi = len(self.text) if hi is None else hi
        for m in re.finditer(regex, self.text[lo:hi]):
            if self.mask[lo + m.start()]:
                yield lo + m.start(), lo + m.end()

    def depth_at(self, pos, lo):
        """brace depth of pos relative to lo"""
        d = 0
        t, m = self.text, self.mask
        for i in range(lo, pos):
            if m[i]:
                if t[i] == '{':
                    d += 1
                elif t[i] == '}':
                    d -= 1
        return d

    def header_end(self, start, hi):
        """position of the first code '{' or ';' at paren/bracket depth 0 after start"""
        t, m = self.text, self.mask
        d = 0
        for i in range(start, hi):
            if not m[i]:
                continue
            c = t[i]
            if c in '([':
                d += 1
            elif c in ')]':
                d -= 1
            elif d == 0 and c in '{;':
                return i
        raise Lost('no item end after %d in %s' % (start, self.path))

    def containers(self, header):
        """all blocks whose header matches `header` (whitespace-insensitive literal), as (open, close)"""
        if header in ('-', ''):
            return [(-1, len(self.text))]
        rx = r'(?<![A-Za-z0-9_])' + r'\s*'.join(re.escape(tok) for tok in re.findall(r'[A-Za-z0-9_]+|\S', header)) + r'(?![A-Za-z0-9_])'
        out = []
        for s, e in self.finditer_code(rx):
            o = self.header_end(e, len(self.text))
            if self.text[o] != '{':
                continue
            # the header must run straight into `{` or a where clause
            between = self.text[e:o].strip()
            if between and not (between.startswith('where') or between.startswith('<') or between.startswith(':')):
                continue
            out.append((o, self.match_close(o)))
        if not out:
            raise Lost('container not found: %r in %s' % (header, self.path))
        return out

    def find_fn(self, container, name, nth=1):
        """returns (sig_start, open_or_semicolon_pos, end_pos_inclusive) for `fn name` directly inside container"""
        rx = r'(?<![A-Za-z0-9_])((pub(\s*\([a-z]+\))?\s+)?(const\s+)?(unsafe\s+)?fn\s+' + re.escape(name) + r')(?![A-Za-z0-9_])'
        found = []
        for (o, c) in self.containers(container):
            lo = o + 1
            for s, e in self.finditer_code(rx, lo, c):
                if self.depth_at(s, lo) != 0:
                    continue
                end = self.header_end(e, c)
                if self.text[end] == '{':
                    found.append((s, end, self.match_close(end)))
                else:
                    found.append((s, end, end))
        if len(found) < nth:
            raise Lost('fn not found: %s :: %s (#%d) in %s' % (container, name, nth, self.path))
        return found[nth - 1]

    def find_item(self, kind, name, container='-'):
        """struct / enum / const / static / type items by name; returns (start, end_inclusive)"""
        rx = r'(?<![A-Za-z0-9_])((pub(\s*\([a-z]+\))?\s+)?' + kind + r'\s+' + re.escape(name) + r')(?![A-Za-z0-9_])'
        for (o, c) in self.containers(container):
            lo = o + 1
            for s, e in self.finditer_code(rx, lo, c):
                if self.depth_at(s, lo) != 0:
                    continue
                end = self.header_end(e, c)
                if self.text[end] == '{':
                    return s, self.match_close(end)
                return s, end
        raise Lost('%s not found: %s in %s' % (kind, name, self.path))
