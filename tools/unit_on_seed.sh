#!/bin/sh
# usage: tools/unit_on_seed.sh <seed dir|-> <unit> [verus args...]  — weave one unit against /repo with the seed applied (scratch copy) and run Verus on it
seed=$1; unit=$2; shift 2
d=$(mktemp -d /tmp/seedrun-XXXX); cp -r /repo/src /repo/Cargo.toml $d/
if [ "$seed" != "-" ]; then (cd $d && git init -q . && git add -A && git commit -qm b >/dev/null && git apply $(realpath /verif/$seed 2>/dev/null || echo $seed)/patch.diff) || { rm -rf $d; exit 3; }; fi
mkdir -p /tmp/w
python3 /verif/tools/weave.py $d $unit /tmp/w/${unit}_s.rs 2>/tmp/w/${unit}_s.json || { tail -1 /tmp/w/${unit}_s.json; rm -rf $d; exit 2; }
rm -rf $d
ed=$(grep -q "verif-edition: 2018" /tmp/w/${unit}_s.rs && echo "--edition=2018")
cd /tmp/w && verus ${unit}_s.rs $ed --num-threads 8 "$@" 2>&1 | grep -v "^note\|trigger" | grep -A9 "^error\|^verif" | head -${LINES_MAX:-60}
