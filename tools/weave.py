#!/usr/bin/env python3
"""Weaver: builds Verus units from /repo's current working tree.

A unit is described by a template (specs/*.vrs): ordinary Verus text (theory, views, model modules) plus
directives `//@...` that pull items *verbatim* out of the repository by path and weave contracts into them.
Every inserted span is bracketed by /*@+*/ ... /*@-*/; the identity audit strips the bracketed spans and
compares what is left, token for token, with the extracted (mechanically rewritten, see REWRITES) text.

Directives (one per line, leading whitespace ignored):
  //@insert FILE                        textual inclusion of specs/FILE (a contract text shared by two templates)
  //@include FILE [verify|stub]         include another template; `stub` renders every fn of it as a contract only
  //@src PATH                           current repository file (relative to the repo root)
  //@struct NAME [keep_derive]          struct/enum definition, fields widened to pub (R8), derives dropped (R1)
  //@const NAME                         const/static item, verbatim
  //@fn CONTAINER :: NAME [#k] [opts]   function item; CONTAINER is the text of the enclosing block header or `-`
  //@sig CONTAINER :: NAME [#k] [opts]  signature only (trait method declaration), ends with `;`
      opts: status=A (contract assumed, body never verified)  props=C01,C05  vis=pub  rename=NEW  notrait
    inside //@fn ... //@endfn:
      //@ret NAME             name the return value
      //@spec                 following lines go between signature and body
      //@entry                following lines go right after the opening brace of the body
      //@exit                 ... right before the closing brace (unit-valued bodies)
      //@tail                 ... after the last top-level `;` of the body (before a tail expression)
      //@blockend "tok" [#k]              before the closing brace of the innermost block that contains the token
  //@closure K [RET_TYPE]  ... contract for the K-th closure (a last call argument): `|x| e)` -> `|x| -> (ret: T) <text> { e })`
      //@afterblock "TOKEN" [#k] ... right after the block statement (if/match/unsafe, with its else branches) starting at the token
      //@loopafter K          ... right after the closing `}` of the K-th loop
      //@afteropen "tok"    ... at the head of the block that follows the token (right after its `{`)
      //@loop K [bind=ID]     ... before the `{` of the K-th loop (invariant/decreases); bind= names a for-iterator
      //@loopbody K           ... at the start of the K-th loop's body
      //@loopend K            ... at the end of the K-th loop's body
      //@desugar_closure_patterns   rewrite R11 (closure tuple-pattern parameters bound by a let in the closure body)
      //@model_adapters       rewrite R12 (`X.iter().map(` / `(a..b).map(` -> model adapters `X.verif_iter_map(` / `(a..b).verif_map(`;
                              `X.iter().cloned().max()`, `IT.max()`, `X.extend(V)` -> verified models verif_iter_cloned_max / verif_max / verif_extend)
      //@deref_operand NAME   rewrite R14 (`NAME & E`, NAME a reference -> `*NAME & E`)
      //@lettype NAME TYPE    the deferred-initialisation `let NAME;` gets the type ascription `let NAME: TYPE;` (Verus needs the
                              type where a loop contract mentions the variable; a wrong TYPE is a compile error = undecided)
      //@before "TEXT" [#k]   ... before the k-th statement-start occurrence of TEXT
      //@after "TEXT" [#k]    ... after the `;` that ends the statement containing the k-th occurrence of TEXT
      //@desugar_for K        rewrite R5 on the K-th loop
      //@endfn
  //@verify_only / //@stub_only ... //@end   section kept only in that mode
"""
import hashlib
import json
import os
import re
import sys

sys.path.insert(0, os.path.dirname(os.path.abspath(__file__)))
from rustscan import Source, Lost, code_mask  # noqa: E402

BEGIN, END = '/*@+*/', '/*@-*/'
SPECS = os.environ.get('VERIF_SPECS') or os.path.join(os.path.dirname(os.path.dirname(os.path.abspath(__file__))), 'specs')  # VERIF_SPECS: development only


class Undecided(Exception):
    pass


def ins(t):
    if not t:
        return ''
    if '//' in t and not t.endswith('\n'):
        t += '\n'
    return BEGIN + t + END


def strip_inserted(woven):
    return re.sub(re.escape(BEGIN) + r'.*?' + re.escape(END), '', woven, flags=re.S)


def norm_tokens(s):
    """token sequence, comments dropped"""
    m = code_mask(s)
    out = []
    i, n = 0, len(s)
    while i < n:
        if s.startswith('//', i) and not m[i]:
            j = s.find('\n', i)
            i = n if j < 0 else j
            continue
        if s.startswith('/*', i) and not m[i]:
            depth, j = 1, i + 2
            while j < n and depth:
                if s.startswith('/*', j):
                    depth += 1; j += 2
                elif s.startswith('*/', j):
                    depth -= 1; j += 2
                else:
                    j += 1
            i = j
            out.append(' ')
            continue
        out.append(s[i])
        i += 1
    return re.findall(r'[A-Za-z0-9_]+|\S', ''.join(out))


# ---------------------------------------------------------------------------------------------------------
# mechanical rewrites (DESIGN 2.1); each returns (new_text, count).  None of them adds or removes a newline.

def rw_get_unchecked(text):
    """R2: `*X.get_unchecked(i)` -> `X[i]`  (the bounds obligation on X[i] is the safety obligation)"""
    count = 0
    out = []
    i = 0
    rx = re.compile(r'\*\s*([A-Za-z_][A-Za-z0-9_\.]*)\s*\.\s*get_unchecked\s*\(')
    while True:
        m = rx.search(text, i)
        if not m:
            out.append(text[i:])
            break
        # find the matching ')'
        d, j = 1, m.end()
        while j < len(text) and d:
            if text[j] == '(':
                d += 1
            elif text[j] == ')':
                d -= 1
            j += 1
        out.append(text[i:m.start()])
        out.append('%s[%s]' % (m.group(1), text[m.end():j - 1]))
        i = j
        count += 1
    return ''.join(out), count


def rw_for_by_ref(text):
    """R5: `for PAT in X.by_ref() { B }` -> `loop { match X.next() { Some(PAT) => { B } None => break } }`
    (the reference desugaring of `for`, with `<&mut I as Iterator>::next` = `(**self).next()` and `by_ref` = `self`)"""
    count = 0
    rx = re.compile(r'\bfor\s+(.+?)\s+in\s+([A-Za-z_][A-Za-z0-9_\.]*)\s*\.\s*by_ref\s*\(\s*\)\s*\{')
    while True:
        m = rx.search(text)
        if not m or '\n' in m.group(0):
            break
        # matching close brace of the loop body
        d, j = 1, m.end()
        while j < len(text) and d:
            if text[j] == '{':
                d += 1
            elif text[j] == '}':
                d -= 1
            j += 1
        head = 'loop { match %s.next() { Some(%s) => {' % (m.group(2), m.group(1))
        text = text[:m.start()] + head + text[m.end():j] + ' None => break } }' + text[j:]
        count += 1
    return text, count


TOTAL_VARIANTS = set()
# (trait, method, type): the templates weave the PROVIDED method `trait::method` inside a block of `type` (R4b: the provided method at Self = type)
TRAIT_DEFAULTS_AT_TYPE = set()


def read_template(path):
    """template lines; `//@insert FILE` is replaced by the lines of specs/FILE (one contract text shared by two templates)"""
    out = []
    for ln in open(path).read().split('\n'):
        m = re.match(r'\s*//@insert\s+(\S+)((?:\s+\w+=\S+)*)\s*$', ln)
        if m:
            # `//@insert FILE K=V ..`: the lines of specs/FILE with @K@ replaced by V (one contract / proof text for several instantiations)
            sub = read_template(os.path.join(SPECS, m.group(1)))
            for kv in m.group(2).split():
                k, v = kv.split('=', 1)
                sub = [x.replace('@%s@' % k, v) for x in sub]
            out.extend(sub)
        else:
            out.append(ln)
    while out and out[-1] == '' and path.endswith('.inc'):
        out.pop()
    out = expand_foreach(out, path)
    hdr_ = ''
    for ln in out:
        m = re.match(r'\s*//@fn\s+(.*?)\s*::\s*(\w+)\b.*\brename=\w+_total\b', ln)
        if m:
            TOTAL_VARIANTS.add((m.group(1).strip(), m.group(2)))
        if not ln.lstrip().startswith('//') and re.match(r'\s*(?:pub\s+)?(?:impl\b|trait\b).*\{\s*(?://.*)?$', ln):
            hdr_ = ln.strip()
        m = re.match(r'\s*//@fn\s+pub trait\s+(\w+)\s*::\s*(\w+)\b', ln)
        if m and hdr_.startswith('impl'):
            TRAIT_DEFAULTS_AT_TYPE.add((m.group(1), m.group(2), type_of_header(hdr_)))
    return out


def expand_foreach(lines, path):
    """`//@foreach A,B in (x,y) (z,w)` ... `//@endforeach`: the enclosed template lines once per tuple, with @A@ / @B@ replaced.
    One contract text for all the invocations of a macro_rules! definition (rewrite R13 at every invocation that exists in the file)."""
    out = []
    i = 0
    while i < len(lines):
        m = re.match(r'\s*//@foreach\s+([\w,]+)\s+in\s+(.*)$', lines[i])
        if not m:
            out.append(lines[i]); i += 1
            continue
        names = m.group(1).split(',')
        tuples = [t.split(',') for t in re.findall(r'\(([^)]*)\)', m.group(2))]
        j = i + 1
        blk = []
        while j < len(lines) and not re.match(r'\s*//@endforeach\s*$', lines[j]):
            blk.append(lines[j]); j += 1
        if j >= len(lines):
            raise Undecided('//@foreach without //@endforeach in %s' % path)
        for t in tuples:
            if len(t) != len(names):
                raise Undecided('bad //@foreach tuple in %s' % path)
            for b in blk:
                for n, v in zip(names, t):
                    b = b.replace('@%s@' % n, v.strip())
                out.append(b)
        i = j + 1
    return out


def rw_for_iter(text, nth, into=False):
    """R5: the nth `for PAT in EXPR { B }` (EXPR a crate-defined iterator) ->
    `let mut verif_it = EXPR; loop { match verif_it.next() { Some(PAT) => { B } None => break } }`  (reference desugaring of `for`)"""
    rx = re.compile(r'\bfor\s+(.+?)\s+in\s+([^{\n]+?)\s*\{')
    pos = 0
    m = None
    for _ in range(nth):
        m = rx.search(text, pos)
        if not m:
            return text, 0
        pos = m.end()
    d, j = 1, m.end()
    while j < len(text) and d:
        if text[j] == '{':
            d += 1
        elif text[j] == '}':
            d -= 1
        j += 1
    # `into`: EXPR is an IntoIterator that is not an iterator itself: the reference desugaring calls IntoIterator::into_iter on it
    expr = m.group(2).strip()
    if into:
        expr = '(%s).into_iter()' % expr
    head = 'let mut verif_it = %s; loop { match verif_it.next() { Some(%s) => {' % (expr, m.group(1))
    return text[:m.start()] + head + text[m.end():j] + ' None => break } }' + text[j:], 1


def rw_underscore_closures(text):
    """R3: closure parameter `|_|` -> `|_cN|` (Verus accepts only variables as closure parameters)"""
    n = [0]

    def f(m):
        n[0] += 1
        return '|_c%d|' % n[0]
    return re.sub(r'\|\s*_\s*\|', f, text), n[0]


def rw_closure_patterns(text):
    """R11: closure with one tuple-pattern parameter `|(a, b)| E` (a call argument) -> `|verif_pN| { let (a, b) = verif_pN; E }`:
    closure parameters are irrefutable patterns bound exactly like `let` (Rust reference, closure expressions)"""
    mask = code_mask(text)
    out, pos, n = [], 0, 0
    for m in re.finditer(r'\|\s*(\([^|()]*\))\s*\|', text):
        if not mask[m.start()] or m.start() < pos:
            continue
        # extent of the body expression: up to the `,` or `)` that closes the call argument
        d, j = 0, m.end()
        while j < len(text):
            if mask[j]:
                ch = text[j]
                if ch in '({[':
                    d += 1
                elif ch in ')}]':
                    if d == 0:
                        break
                    d -= 1
                elif ch == ',' and d == 0:
                    break
            j += 1
        if j >= len(text):
            continue
        n += 1
        body = text[m.end():j]
        out.append(text[pos:m.start()])
        out.append('|verif_p%d| { let %s = verif_p%d; %s }' % (n, m.group(1), n, body.strip()))
        pos = j
    out.append(text[pos:])
    return ''.join(out), n


def rw_model_adapters(text, only=None):
    """R12: the std adapter calls `X.iter().map(` (X a Vec) and `(a..b).map(` are renamed to the model adapters `X.verif_iter_map(` and
    `(a..b).verif_map(` of specs/adapters_model.vrs (std's own `Iterator::map` stays in scope for the std iterator types and vstd specifies
    it only prophetically, so the model methods need their own names)"""
    mask = code_mask(text)
    n = [0]

    def f1(m):
        if not mask[m.start()]:
            return m.group(0)
        n[0] += 1
        return '.verif_iter_map('

    def f2(m):
        if not mask[m.start()]:
            return m.group(0)
        n[0] += 1
        return m.group(1) + '.verif_map('
    if only is None or 'iter_map' in only:
        text = re.sub(r'\.iter\(\)\s*\.map\(', f1, text)
    if only is None or 'range_map' in only:
        text = re.sub(r'(\(\s*[A-Za-z0-9_]+\s*\.\.\s*[A-Za-z0-9_]+\s*\))\.map\(', f2, text)
    # `X.iter().cloned().max()` (X a Vec<u64>), `IT.max()` (IT a model iterator over u64), `X.extend(V)` (X, V: Vec<T>):
    # renamed to the verified models `verif_iter_cloned_max` / `verif_max` / `verif_extend` of specs/iter_model.vrs
    # `X.sort_unstable_by_key(f)` (X a Vec, u64 keys) -> the ASSUMED model `verif_sort_unstable_by_key` (std's documented contract);
    # `X.into_iter().map(f)` (X a Vec) -> the verified model adapter `X.verif_into_iter_map(f)`
    for key, rx, rep in (('cloned_max', r'\.iter\(\)\s*\.cloned\(\)\s*\.max\(\)', '.verif_iter_cloned_max()'), ('max', r'\.max\(\)', '.verif_max()'), ('extend', r'\.extend\(', '.verif_extend('),
                         ('sort', r'\.sort_unstable_by_key\(', '.verif_sort_unstable_by_key('), ('into_iter_map', r'\.into_iter\(\)\s*\.map\(', '.verif_into_iter_map(')):
        if only is not None and key not in only:
            continue
        mask = code_mask(text)

        def f3(m, rep=rep, mask=mask):
            if not mask[m.start()]:
                return m.group(0)
            n[0] += 1
            return rep
        text = re.sub(rx, f3, text)
    # `io::copy(&mut R.by_ref().take(N), &mut io::sink())` -> the ASSUMED model `io::verif_copy_take_sink(R, N)` of specs/io_model.vrs
    # (std: copy reads until EOF of the Take adapter, which yields at most N bytes of R; the sink accepts everything; the count is returned)
    if only is None or 'copy_take_sink' in only:
        text, k_ = re.subn(r'io::copy\(\s*&mut\s+(\w+)\.by_ref\(\)\s*\.take\(([^()]*)\)\s*,\s*&mut\s+io::sink\(\)\s*\)', r'io::verif_copy_take_sink(\1, \2)', text)
        n[0] += k_
    return text, n[0]


def rw_deref_operand(text, name):
    """R14: `NAME & E` with NAME a `&u64` (the item of a slice iterator) -> `*NAME & E`: std's forwarding impl `impl BitAnd<u64> for &u64`
    is `*self & other`; Verus has no operators on references"""
    mask = code_mask(text)
    n = [0]

    def f(m):
        if not mask[m.start(1)]:
            return m.group(0)
        n[0] += 1
        return '*' + m.group(1) + ' & '
    text = re.sub(r'(?<![\w*.&])(' + re.escape(name) + r')\s+&\s+(?!&)', f, text)
    return text, n[0]


def rw_underscore_params(sig):
    """R3: parameter pattern `_: T` -> `_pN: T`"""
    n = [0]

    def f(m):
        n[0] += 1
        return '%s_p%d:' % (m.group(1), n[0])
    return re.sub(r'([(,]\s*)_\s*:', f, sig), n[0]


REWRITES_DOC = {
    'R2': '`*X.get_unchecked(i)` -> `X[i]`: same value when i is in bounds; the bounds obligation IS the safety obligation',
    'R3': 'parameter pattern `_: T` -> `_pN: T`, closure parameter `|_|` -> `|_cN|` (Verus rejects `_` patterns)',
    'R7': 'generic parameter instantiated at the one type the unit models: `T: Index<usize, Output = u64>` of bits::read_int/write_int at Vec<u64>; `P: AsRef<Path>` at the model path type',
    'R10': 'alpha-renaming of the method-level generic parameter of the Serialize methods (T -> W, the name SelectSupport already uses): this Verus matches trait and impl method generics by name',
    'R5': '`for p in E { B }` over a crate-defined iterator -> `let mut verif_it = E; loop { match verif_it.next() { Some(p) => { B } None => break } }`: the reference desugaring of `for` (IntoIterator::into_iter is the identity on iterators); for `E = X.by_ref()` the temporary is elided (`Iterator::by_ref` = `self`, `<&mut I as Iterator>::next` = `(**self).next()`, std source)',
    'R11': 'closure with one tuple-pattern parameter `|(a, b)| E` -> `|verif_pN| { let (a, b) = verif_pN; E }` (Verus accepts only variables as closure parameters; closure parameters are irrefutable patterns bound exactly like let)',
    'R12': 'std adapter calls `X.iter().map(` (X: Vec) / `(a..b).map(` renamed to the model adapters `X.verif_iter_map(` / `(a..b).verif_map(` (specs/adapters_model.vrs: verified model iterators that yield f(x) for every x in order with exact length; TRUSTED: core::iter::Map over slice::Iter / Range behaves like them)',
    'R13': 'item taken from the arm of a macro_rules! definition, the metavariables replaced by the arguments of one invocation that exists in the file (the text the compiler expands for that invocation); the other invocations differ only in the item type',
    'R16': '`let X: T = E.collect();` -> `let X: T = FROM_ITER(E);` (Iterator::collect is FromIterator::from_iter(self); the FromIterator impl is the one the annotated type and the item type select)',
    'R17': '`for PAT in E {` -> `for verif_xK in E { let PAT = verif_xK;` (the loop pattern is bound exactly like let)',
    'R18': '(fallback, only when a body contains closures the proof has no contract for) `E.map(|PAT| X)` -> `match E { Some(PAT) => Some(X), None => None }`: std\'s definition of Option::map with the closure literal beta-reduced; on a non-Option receiver the text does not type-check and the unit is undecided as before',
    'R19': 'an associated type of the implemented trait written out as the type the impl assigns to it (`Self::ValueIter` -> `ValueIter<\'a>`), where a trait impl is verified as inherent functions',
    'R20': 'total variant of a function that panics as documented: `E.unwrap()` -> `E.verif_unwrap_atomic(Ghost(CHK))`, `assert!(C, ..)` -> `verif_assert_atomic(C, Ghost(CHK))`: the models return only when no panic occurs and REQUIRE that the state named by CHK is unchanged when one does (C16: a refused call leaves the builder as it was)',
    'R21': 'state-passing form of an `FnMut` closure that assigns one captured local (Verus has no closures capturing `&mut`): callee variant `F: FnMut(A) -> R` -> `F: Fn(A, S) -> (R, S)` with `verif_st: &mut S` and every call `f(X)` -> `({ let verif_sp = f(X, *verif_st); *verif_st = verif_sp.1; verif_sp.0 })`; caller `x.g(|p| { B })` -> `x.g_st(|p, verif_st_in: S| { let mut V = verif_st_in; B }, &mut V)` with `return E;` -> `return (E, V);` (the classical translation: the closure reads and writes V only through the threaded value, the callee stores it back after every call)',
    'R22': 'a trait impl that no longer defines a method under contract: the PROVIDED method of the trait declaration is verified in its place, with Self = the implementing type (what Rust runs when an override is removed)',
    'R23': 'a type that no longer implements Drop: the drop glue (the fields that implement Drop in this crate are dropped in declaration order) is written out and verified against the contract stated for dropping the type',
    'R24': 'a NEW override of a provided trait method inside a trait impl of the unit: woven as it is and verified against the contract the model trait states for that method (Verus checks every method of an impl against the trait contract)',
    'R4b-rename': 'a method of a trait impl that is statically dispatched in the crate (std traits: Drop, Default, From, AsRef, Deref, Index; the crate-local operation traits) woven as an inherent function of the type, under another name where the trait method name would clash (`drop` -> `drop_impl`, `from` -> `from_bit_vector`, total variants `get` -> `get_total`, the state-passing variant `advance_if` -> `advance_if_st`): Verus takes no contract on the impl of an external trait',
    'R15': 'fully qualified `std::cmp::f` / `core::cmp::f` -> `cmp::f` (the path through the crate\'s own `use std::cmp;`; both name the function the model module cmp declares)',
    'R8': 'struct fields widened to pub inside the unit',
    'R1': 'doc comments / #[inline] / derives dropped',
}


# ---------------------------------------------------------------------------------------------------------

class Body:
    """the text of one fn (signature + body) with insertion points"""

    def __init__(self, text):
        self.text = text
        self.mask = code_mask(text)
        self.ins = []  # (pos, order, text)
        self._n = 0

    def add(self, pos, text):
        self._n += 1
        self.ins.append((pos, self._n, text))

    def code_find(self, needle, start=0):
        i = start
        while True:
            i = self.text.find(needle, i)
            if i < 0:
                return -1
            if self.mask[i]:
                return i
            i += 1

    def body_open(self):
        # first code '{' at paren depth 0
        d = 0
        for i, c in enumerate(self.text):
            if not self.mask[i]:
                continue
            if c in '([':
                d += 1
            elif c in ')]':
                d -= 1
            elif c == '{' and d == 0:
                return i
        return -1

    def match_close(self, o):
        d = 0
        for i in range(o, len(self.text)):
            if not self.mask[i]:
                continue
            if self.text[i] == '{':
                d += 1
            elif self.text[i] == '}':
                d -= 1
                if d == 0:
                    return i
        raise Undecided('unbalanced body')

    def loops(self):
        """[(kw_pos, kw, brace_open, brace_close)] for every loop keyword in textual order"""
        out = []
        bo = self.body_open()
        for m in re.finditer(r'(?<![A-Za-z0-9_\.])(while|loop|for)(?![A-Za-z0-9_])', self.text):
            if m.start() < bo or not self.mask[m.start()]:
                continue
            # the loop's `{`: first code '{' at paren depth 0 that is not a struct-literal... (the crate has none in loop heads)
            d = 0
            o = None
            for i in range(m.end(), len(self.text)):
                if not self.mask[i]:
                    continue
                c = self.text[i]
                if c in '([':
                    d += 1
                elif c in ')]':
                    d -= 1
                elif c == '{' and d == 0:
                    o = i
                    break
            if o is None:
                continue
            out.append((m.start(), m.group(1), o, self.match_close(o)))
        return out

    def stmt_start(self, pos):
        """start of the statement containing pos: after the previous code ';', '{' or '}' (skipping whitespace)"""
        i = pos - 1
        while i >= 0:
            if self.mask[i] and self.text[i] in ';{}':
                break
            i -= 1
        i += 1
        while i < pos and self.text[i] in ' \t\r\n':
            i += 1
        return i

    def render(self):
        """returns list of segments ('src', text, offset) / ('ins', text)"""
        segs = []
        cur = 0
        for pos, _, t in sorted(self.ins):
            if pos > cur:
                segs.append(('src', self.text[cur:pos], cur))
                cur = pos
            segs.append(('ins', ins(t)))
        if cur < len(self.text):
            segs.append(('src', self.text[cur:], cur))
        return segs


_KW = {'if', 'while', 'match', 'for', 'loop', 'return', 'Some', 'None', 'Ok', 'Err', 'fn', 'in', 'as', 'let', 'mut', 'unsafe', 'Self', 'self',
       'usize', 'u64', 'u8', 'u16', 'u32', 'bool', 'Box', 'Vec', 'Option', 'Result', 'where', 'impl', 'move', 'else'}


def called_names(raw):
    """the calls in a function's source text, syntactically: 'Q::name' (path call, Q = last path segment before the name),
    '.name' (method call), 'name' (bare call).  Used for the call closure of a property's cone."""
    code = re.sub(r'//[^\n]*', '', raw)
    bo = code.find('{')
    code = code[bo:] if bo >= 0 else ''
    out = set()
    for m in re.finditer(r'(?:([A-Za-z_][A-Za-z0-9_]*)\s*(?:(?:::\s*)?<[^<>()]*>)?\s*::\s*|(\.)\s*)?([A-Za-z_][A-Za-z0-9_]*)\s*(?:::\s*<[^>()]*>\s*)?\(', code):
        q, dot, nm = m.group(1), m.group(2), m.group(3)
        if nm in _KW:
            continue
        out.add(('%s::%s' % (q, nm)) if q else (('.' + nm) if dot else nm))
    return sorted(out)


# Anchor lock (specs/anchors.lock): for every statement anchor the number of times its token occurs in the function, and the
# number of loops of every function that has loop directives, as observed on the tree the proofs were written for.  A different
# count means an anchor or a loop ordinal may silently designate another statement: the unit is UNDECIDED, never an alarm.
ANCHOR_LOCK_PATH = os.path.join(os.path.dirname(os.path.dirname(os.path.abspath(__file__))), 'specs', 'anchors.lock')
_anchor_lock = None
ANCHOR_SEEN = {}


def anchor_lock():
    global _anchor_lock
    if _anchor_lock is None:
        if os.environ.get('VERIF_RELOCK') or not os.path.exists(ANCHOR_LOCK_PATH):
            _anchor_lock = {}
        else:
            _anchor_lock = json.load(open(ANCHOR_LOCK_PATH))
    return _anchor_lock


def check_anchor(key, count):
    ANCHOR_SEEN[key] = count
    want = anchor_lock().get(key)
    if want is not None and key.endswith('|impl-fns') and count < want:
        # fewer functions than the proof was written against: nothing runs that has no contract.  A function under contract that is gone is
        # either found as the trait's provided method (R22) or reported as a lost anchor
        return
    if want is not None and want != count:
        raise Undecided('anchor ambiguous: %s occurs %d time(s), the proof was written against %d' % (key, count, want))


def count_code(b, needle, lo):
    n, pos = 0, lo
    while True:
        pos = b.code_find(needle, pos + 1)
        if pos < 0:
            return n
        n += 1


def expand_macro(text, spec, rel_file):
    """R13: the body of the (single) arm of `macro_rules! NAME`, with the metavariables replaced by the arguments of an invocation
    `NAME!(..)` that exists in the same file; everything before the body is blanked so that line numbers stay those of the file"""
    m = re.match(r'\s*([A-Za-z_][A-Za-z0-9_]*)\((.*)\)\s*$', spec)
    if not m:
        raise Undecided('bad macro source: %s' % spec)
    name = m.group(1)
    binds = []
    for part in m.group(2).split(','):
        k, v = part.split('=', 1)
        binds.append((k.strip(), v.strip()))
    mask = code_mask(text)
    d = re.search(r'macro_rules!\s*' + re.escape(name) + r'\s*\{', text)
    if not d or not mask[d.start()]:
        raise Undecided('macro_rules! %s not found in %s' % (name, rel_file))
    arm = re.compile(r'\(([^)]*)\)\s*=>\s*\{').search(text, d.end())
    if not arm:
        raise Undecided('macro %s: no arm' % name)
    params = [q.strip().split(':')[0].strip() for q in arm.group(1).split(',') if q.strip()]
    if params != [k for k, v in binds]:
        raise Undecided('macro %s: parameters %s do not match the template (%s)' % (name, params, [k for k, v in binds]))
    # the body: up to the brace matching the arm's opening brace
    depth, i = 0, arm.end() - 1
    while i < len(text):
        if mask[i]:
            if text[i] == '{':
                depth += 1
            elif text[i] == '}':
                depth -= 1
                if depth == 0:
                    break
        i += 1
    body = text[arm.end():i]
    # an invocation with exactly these arguments must exist
    inv = re.compile(re.escape(name) + r'!\s*\(\s*' + r'\s*,\s*'.join(re.escape(v) for k, v in binds) + r'\s*\)\s*;')
    if not inv.search(text):
        raise Undecided('macro %s is not invoked with (%s) in %s' % (name, ', '.join(v for k, v in binds), rel_file))
    for k, v in binds:
        body = re.sub(re.escape(k) + r'(?![A-Za-z0-9_])', v, body)
    blank = ''.join(ch if ch == '\n' else ' ' for ch in text[:arm.end()])
    return blank + body + '\n'


def rw_checked_index(text):
    """R20 (continued): in a total variant the CHECKED indexing `X[i]` of the source (not the accesses that rewrite R2 produces from
    get_unchecked: those stay obligations, so this runs BEFORE R2) becomes `verif_checked_index(&X, i)`, which returns only for an index
    inside the vector"""
    mask_ = code_mask(text)
    out_, pos_, k_ = [], 0, 0
    for m_ in re.finditer(r'((?:self|[a-z_][A-Za-z0-9_]*)(?:\.[a-z_][A-Za-z0-9_]*)*)\[', text):
        if m_.start() < pos_ or not mask_[m_.start()]:
            continue
        d_, j_ = 0, m_.end()
        while j_ < len(text):
            ch = text[j_]
            if ch in '([{':
                d_ += 1
            elif ch in ')]}':
                if d_ == 0:
                    break
                d_ -= 1
            j_ += 1
        if j_ >= len(text) or text[j_] != ']' or '..' in text[m_.end():j_]:
            continue
        mw_ = re.match(r'\s*(?:[-+*/%&|^]|<<|>>)?=(?!=)', text[j_ + 1:])
        if mw_:
            # a checked WRITE `X[i] op= E;` (IndexMut panics exactly when Index would): the statement is kept and preceded by a checked read of
            # the same element, which returns only for an index inside the vector
            ls_ = text.rfind('\n', 0, m_.start()) + 1
            if text[ls_:m_.start()].strip() == '':
                out_.append(text[pos_:m_.start()])
                out_.append('let _ = verif_checked_index(&%s, %s); ' % (m_.group(1), text[m_.end():j_].strip()))
                out_.append(text[m_.start():j_ + 1]); pos_ = j_ + 1; k_ += 1
            continue
        out_.append(text[pos_:m_.start()]); out_.append('verif_checked_index(&%s, %s)' % (m_.group(1), text[m_.end():j_].strip())); pos_ = j_ + 1; k_ += 1
    out_.append(text[pos_:])
    return ''.join(out_), k_


def rw_option_map(text, lo):
    """R18: `RECV.map(|PAT| EXPR)` -> `(match RECV { Some(PAT) => Some(EXPR), None => None })` and `RECV.map_or(D, |PAT| EXPR)` ->
    `(match RECV { Some(PAT) => EXPR, None => D })` for closure literals with an expression body"""
    mask = code_mask(text)
    out, pos, n = [], 0, 0
    for m in re.finditer(r'\.map(?:_or\(\s*([^,()|]+?)\s*,|\()\s*\|([^|]*)\|\s*', text):
        if m.start() < max(lo, pos) or not mask[m.start()]:
            continue
        dflt, pat = m.group(1), m.group(2)
        # body: up to the `)` that closes the call
        d, j = 0, m.end()
        while j < len(text):
            if mask[j]:
                ch = text[j]
                if ch in '([{':
                    d += 1
                elif ch in ')]}':
                    if d == 0:
                        break
                    d -= 1
            j += 1
        if j >= len(text) or text[j] != ')':
            continue
        body = text[m.end():j].strip()
        if not body or body.startswith('{') or re.search(r'\breturn\b|\?', body) or ',' in re.sub(r'\([^()]*\)', '', body):
            continue
        # receiver: the method-call chain that ends at `.map(`
        i, d = m.start() - 1, 0
        while i >= 0:
            ch = text[i]
            if ch in ')]':
                d += 1
            elif ch in '([':
                if d == 0:
                    break
                d -= 1
            elif d == 0 and not (ch.isalnum() or ch in '_.:&*'):
                break
            i -= 1
        recv = text[i + 1:m.start()].strip()
        if not recv:
            continue
        start = m.start() - len(text[i + 1:m.start()].lstrip())
        out.append(text[pos:start])
        if dflt is None:
            out.append('(match %s { Some(%s) => Some(%s), None => None })' % (recv, pat.strip(), body))
        else:
            # Option::map_or(default, f): `match self { Some(t) => f(t), None => default }` (std source)
            out.append('(match %s { Some(%s) => %s, None => %s })' % (recv, pat.strip(), body, dflt.strip()))
        pos = j + 1
        n += 1
    out.append(text[pos:])
    return ''.join(out), n


def closure_head_at(text, pos):
    """is the `|` at pos the start of a closure head (expression position) rather than a binary `|` / `||` (after an operand)?"""
    j = pos - 1
    while j >= 0 and text[j].isspace():
        j -= 1
    if j < 0:
        return True
    ch = text[j]
    if ch.isalnum() or ch == '_':
        k = j
        while k >= 0 and (text[k].isalnum() or text[k] == '_'):
            k -= 1
        return text[k + 1:j + 1] in ('move', 'return', 'in', 'else', 'break')
    return ch not in ')]}"\'?'


def new_impl_fns(rel, container, names):
    """the functions of an impl block that the tree the proofs were written for did not have (specs/anchors.lock, `|impl-fn-names`)"""
    want = anchor_lock().get('%s:%s|impl-fn-names' % (rel, container))
    if want is None:
        return []
    old_ = want.split(',') if want else []
    return [n for n in names if n not in old_]


def type_of_header(hdr):
    """the implementing type of an impl header: `impl<'a> Access<'a> for IntVector` / `impl IntVector {` -> IntVector"""
    h = re.sub(r'\{\s*(//.*)?$', '', hdr).strip()
    h = re.sub(r'\bwhere\b.*$', '', h).strip()
    if ' for ' in h:
        h = h.rsplit(' for ', 1)[1]
    else:
        h = re.sub(r'^impl\s*(<[^>]*>)?\s*', '', h)
    m = re.match(r'\s*(?:[a-z_]+::)*([A-Za-z_][A-Za-z0-9_]*)', h)
    return m.group(1) if m else ''


def weave_fn(src, container, name, nth, opts, subs, mode, sig_only=False):
    """returns (woven_text, record)"""
    impl_src = src
    r22 = False
    r23 = False
    try:
        s, o, c = src.find_fn(container, name, nth)
    except Lost as e_:
        # R22: the impl block of a trait no longer defines a method the template has a contract for.  If the trait declaration (same crate)
        # PROVIDES that method, Rust runs the provided body with Self = the implementing type: that body is what is verified against the
        # contract of the impl (`impl BitVec for SparseVector` without `count_zeros` -> `BitVec::count_zeros`'s default `self.len() - self.count_ones()`)
        m_ = re.match(r"impl\s*(?:<[^>]*>\s*)?([A-Za-z_][A-Za-z0-9_]*)\s*(?:<[^>]*>\s*)?for\b", container)
        md_ = re.match(r"impl\s*(?:<[^>]*>\s*)?Drop\s+for\s+([A-Za-z_][A-Za-z0-9_]*)", container)
        if md_ and name == 'drop' and not sig_only and 'container not found' in str(e_):
            # R23: the type no longer implements Drop.  What Rust runs when a value of the type is dropped is then the drop glue alone: the
            # fields are dropped in declaration order.  The glue is written out for the fields whose types implement Drop in this crate
            # (`self.F.drop_impl()`: R4b verifies `Drop::drop` of a crate type as the inherent function drop_impl) and verified against the
            # contract the template states for dropping the type
            xs_, xe_ = src.find_item('struct', md_.group(1))
            stxt_ = src.text[xs_:xe_ + 1]
            root_ = getattr(src, 'root', None)
            alltxt_ = ''
            if root_:
                import glob as glob_
                alltxt_ = '\n'.join(open(p_).read() for p_ in sorted(glob_.glob(os.path.join(root_, 'src', '**', '*.rs'), recursive=True)))
            calls_ = []
            for fm_ in re.finditer(r'(?m)^\s*(?:pub(?:\([a-z]+\))?\s+)?([a-z_][A-Za-z0-9_]*)\s*:\s*([A-Za-z_][A-Za-z0-9_]*)', stxt_[stxt_.index('{') + 1:]):
                if re.search(r'impl\s*(?:<[^>]*>\s*)?Drop\s+for\s+' + re.escape(fm_.group(2)) + r'(?![A-Za-z0-9_])', alltxt_):
                    calls_.append(fm_.group(1))
            glue_ = 'fn drop(&mut self) {\n' + ''.join('        self.%s.drop_impl();\n' % f_ for f_ in calls_) + '    }'
            gsrc_ = Source(src.path, text=src.text[:xs_] + glue_)
            gsrc_.root = root_ if root_ else os.path.dirname(src.path)
            impl_src = None
            src, s, o, c = gsrc_, xs_, xs_ + glue_.index('{'), xs_ + len(glue_) - 1
            r23 = True
        elif sig_only or not m_ or 'fn not found' not in str(e_):
            raise
        found_ = None
        root_ = getattr(src, 'root', None) if not r23 else None
        if r23:
            found_ = (src, s, o, c)
        if root_:
            import glob as glob_
            for p_ in sorted(glob_.glob(os.path.join(root_, 'src', '**', '*.rs'), recursive=True)):
                t_ = Source(p_)
                t_.root = root_
                try:
                    s2, o2, c2 = t_.find_fn('pub trait ' + m_.group(1), name, 1)
                except Lost:
                    continue
                if t_.text[o2] == '{':
                    found_ = (t_, s2, o2, c2)
                    break
        if not found_:
            raise
        src, s, o, c = found_
        r22 = not r23
    raw = src.text[s:c + 1]
    line0 = src.line_of(s)
    if opts.get('status') == 'A' and not sig_only and not (r22 or r23) and not opts.get('proved_as'):
        # a function whose contract is ASSUMED (its body is never verified): the assumption was reviewed against one particular text.  The hash
        # of that text (comments and layout aside) is locked; a different body makes the unit undecided - nothing is known about the new text
        sha_ = hashlib.sha256(' '.join(str(t_) for t_ in norm_tokens(raw)).encode()).hexdigest()[:16]
        key_ = '%s:%s::%s|assumed-sha' % (os.path.relpath(src.path, getattr(src, 'root', os.path.dirname(src.path))), container, name)
        ANCHOR_SEEN[key_] = sha_
        want_ = anchor_lock().get(key_)
        if want_ is not None and want_ != sha_:
            raise Undecided('the body of %s::%s changed and its contract is assumed, not verified (the assumption was reviewed against another text)' % (container, name))
    # anchor-lock keys carry the source file: the same `impl .. for Iter<'a>::next` exists in several files
    akey = '%s:%s::%s' % (os.path.relpath(src.path, getattr(src, 'root', os.path.dirname(src.path))), container, name)
    rewrites = {}
    if getattr(src, 'macro', None):
        rewrites['R13'] = 1
    if r22:
        rewrites['R22'] = 1
    if r23:
        rewrites['R23'] = 1
    if container.startswith('impl') and ' for ' in container and not sig_only and not r23 and not opts.get('_extras_ok'):
        # a TRAIT impl block under contract: the number of functions it defines is locked.  A new override of a provided trait method
        # (`fn nth` next to `fn next`) would run instead of the default the contracts assume, and no obligation would be generated for it
        nfn = 0
        names_ = []
        for (o_, c_) in impl_src.containers(container):
            for s_, e_ in impl_src.finditer_code(r'(?<![A-Za-z0-9_])fn\s+[A-Za-z0-9_]+', o_ + 1, c_):
                if impl_src.depth_at(s_, o_ + 1) == 0:
                    nfn += 1
                    names_.append(re.search(r'fn\s+([A-Za-z0-9_]+)', impl_src.text[s_:e_]).group(1))
        rel_ = os.path.relpath(impl_src.path, getattr(impl_src, 'root', os.path.dirname(impl_src.path)))
        ANCHOR_SEEN['%s:%s|impl-fn-names' % (rel_, container)] = ','.join(sorted(names_))
        new_ = new_impl_fns(rel_, container, names_)
        tm_ = re.match(r"impl\s*(?:<[^>]*>\s*)?([A-Za-z_][A-Za-z0-9_]*)", container)
        ty_ = type_of_header(container)
        if new_ and tm_ and all((tm_.group(1), n_, ty_) in TRAIT_DEFAULTS_AT_TYPE for n_ in new_):
            # every new function overrides a provided trait method that the templates weave for this very type: the override is verified in
            # its place (R24), nothing runs without a contract
            ANCHOR_SEEN['%s:%s|impl-fns' % (rel_, container)] = nfn
        else:
            check_anchor('%s:%s|impl-fns' % (rel_, container), nfn)
    pre_ = raw
    if any(kind == 'checked_index_total' for kind, arg, lines in subs):
        pre_, k0_ = rw_checked_index(raw)
        if k0_:
            rewrites['R20'] = rewrites.get('R20', 0) + k0_
    text, k = rw_get_unchecked(pre_)
    if k:
        rewrites['R2'] = k
    text, k = rw_underscore_closures(text)
    if k:
        rewrites['R3'] = rewrites.get('R3', 0) + k
    # R15: a fully qualified path into a std module that the unit models (`std::cmp::min(..)`) names the same function as the
    # path through the crate's `use std::cmp;` (`cmp::min(..)`): both resolve to the model module
    text, k = re.subn(r'(?<![\w:])(?:std|core)::(cmp)::', r'\1::', text)
    if k:
        rewrites['R15'] = k
    # R11 only on request: a closure WITHOUT a contract tells Verus nothing about its result, so silently accepting new closures
    # would turn a harmless rewrite (`x.map(|(_, i)| i)`) into a failed proof, i.e. a false alarm
    if any(kind == 'desugar_closure_patterns' for kind, arg, lines in subs):
        text, k = rw_closure_patterns(text)
        if not k:
            raise Undecided('anchor lost: no closure with a tuple-pattern parameter in %s::%s' % (container, name))
        rewrites['R11'] = k
    if any(kind == 'model_adapters' for kind, arg, lines in subs):
        # `//@model_adapters [a,b,..]`: all the renamings, or only the named ones (iter_map range_map cloned_max max extend sort into_iter_map)
        only_ = [arg.strip() for kind, arg, lines in subs if kind == 'model_adapters'][0]
        text, k = rw_model_adapters(text, set(only_.split(',')) if only_ else None)
        # (a rewrite, not a proof anchor: where no such call occurs there is nothing to rename, and Verus decides the text as it is)
        if k:
            rewrites['R12'] = k
    for kind, arg, lines in subs:
        if kind == 'panic_atomic':
            # R20 (the "total" variant of a function that panics as documented): every panic site of the body gets the obligation that the
            # state named by the directive is unchanged when the panic happens - `E.unwrap()` -> `E.verif_unwrap_atomic(Ghost(CHK))`,
            # `assert!(C, ..)` -> `verif_assert_atomic(C, Ghost(CHK))` (specs/panic_model.vrs: they return only when no panic occurs)
            chk = arg.strip()
            text, k1 = re.subn(r'\.unwrap\(\)', '.verif_unwrap_atomic(Ghost(%s))' % chk, text)
            out_, pos_, k2 = [], 0, 0
            for m_ in re.finditer(r'(?<![A-Za-z0-9_])assert!\(', text):
                if m_.start() < pos_:
                    continue
                d_, j_, first_end = 0, m_.end(), None
                while j_ < len(text):
                    ch = text[j_]
                    if ch in '([{':
                        d_ += 1
                    elif ch in ')]}':
                        if d_ == 0:
                            break
                        d_ -= 1
                    elif ch == ',' and d_ == 0 and first_end is None:
                        first_end = j_
                    j_ += 1
                cond = text[m_.end():(first_end if first_end is not None else j_)]
                out_.append(text[pos_:m_.start()]); out_.append('verif_assert_atomic(%s, Ghost(%s))' % (cond.strip(), chk)); pos_ = j_ + 1; k2 += 1
            out_.append(text[pos_:])
            text = ''.join(out_)
            if k1 + k2:
                rewrites['R20'] = k1 + k2
    for kind, arg, lines in subs:
        if kind == 'wrapping_add_assign':
            # R20 (continued), safety-only total variants: `x += e;` -> `x = x.wrapping_add(e);` - the release build wraps and goes on, the debug
            # build panics (the path ends): the wrapping form covers both, and what follows must be safe for ANY value of x
            text, k_ = re.subn(r'(?m)^(\s*)([a-z_][A-Za-z0-9_]*)\s*\+=\s*([^;]+);', lambda m: '%s%s = %s.wrapping_add(%s);' % (m.group(1), m.group(2), m.group(2), m.group(3).strip()), text)
            # (the same statement written out: `x = x + e;` / `x = e + x;` with e free of further top-level additions)
            def wr_(m):
                ind, x, rhs = m.group(1), m.group(2), m.group(3)
                # top-level operators of the right-hand side (outside parentheses / brackets); ` as T` casts bind tighter than `+`
                d, cuts = 0, []
                for q, ch in enumerate(rhs):
                    if ch in '([{':
                        d += 1
                    elif ch in ')]}':
                        d -= 1
                    elif d == 0 and ch in '+-*/%&|^<>':
                        cuts.append((q, ch))
                if len(cuts) != 1 or cuts[0][1] != '+':
                    return m.group(0)
                a, b = rhs[:cuts[0][0]].strip(), rhs[cuts[0][0] + 1:].strip()
                if a == x:
                    return '%s%s = %s.wrapping_add(%s);' % (ind, x, x, b)
                if b == x:
                    return '%s%s = %s.wrapping_add(%s);' % (ind, x, x, a)
                return m.group(0)
            before_ = text
            text = re.sub(r'(?m)^(\s*)([a-z_][A-Za-z0-9_]*)\s*=(?!=)\s*([^;=]+);', wr_, text)
            k2_, k3_ = (1 if text != before_ else 0), 0
            k_ += k2_ + k3_
            if k_:
                rewrites['R20'] = rewrites.get('R20', 0) + k_
    for kind, arg, lines in subs:
        if kind == 'assoc_type':
            # R19: `//@assoc_type Self::ValueIter ValueIter<'a>` - an associated type of the trait written out as the type the impl block
            # assigns to it (`type ValueIter = ValueIter<'a>;`): needed where a trait impl is verified as inherent functions (R4b)
            a_, b_ = arg.split(None, 1)
            # (in the signature the type with its parameters; in the body - struct literals, paths - the bare type name)
            bo_ = Body(text).body_open()
            bo_ = bo_ if bo_ >= 0 else len(text)
            sig_, k1 = re.subn(r'(?<![\w:])' + re.escape(a_) + r'(?![A-Za-z0-9_])', b_.strip(), text[:bo_])
            body_, k2 = re.subn(r'(?<![\w:])' + re.escape(a_) + r'(?![A-Za-z0-9_])', re.sub(r'<.*>$', '', b_.strip()), text[bo_:])
            text = sig_ + body_
            if k1 + k2:
                rewrites['R19'] = rewrites.get('R19', 0) + k1 + k2
    for kind, arg, lines in subs:
        if kind == 'collect_as':
            # R16: `let [mut] X: TYPE = E.collect();` -> `let [mut] X: TYPE = FN(E);` with FN the FromIterator impl that the annotated type and
            # the item type select (`Iterator::collect` IS `FromIterator::from_iter(self)`, std source)
            fn_ = arg.strip()
            m_ = re.search(r'(let\s+(?:mut\s+)?\w+\s*:\s*[\w:<>]+\s*=\s*)((?:(?!\blet\s+(?:mut\s+)?\w+\s*:).)*?)\.collect\(\)\s*;', text, re.S)
            # (a rewrite, not a proof anchor: where the pattern does not occur there is nothing to rewrite, and Verus decides the text as it is)
            if m_:
                text = text[:m_.start()] + m_.group(1) + fn_ + '(' + m_.group(2) + ');' + text[m_.end():]
                rewrites['R16'] = rewrites.get('R16', 0) + 1
        if kind == 'hoist_for_pattern':
            # R17: `for PAT in E {` -> `for verif_xK in E { let PAT = verif_xK;` for the K-th `for` loop (the loop pattern is an irrefutable
            # pattern bound exactly like `let`; Verus needs a variable there when the loop carries a ghost iterator)
            kth = int(arg.strip() or '1')
            rx_ = re.compile(r'\bfor\s+(\([^()]*\))\s+in\s+([^{\n]+?)\s*\{')
            ms_ = [m for m in re.finditer(r'\bfor\s+(.+?)\s+in\s+([^{\n]+?)\s*\{', text) if code_mask(text)[m.start()]]
            if kth > len(ms_) or not rx_.match(text, ms_[kth - 1].start()):
                raise Undecided('anchor lost: `for` loop #%d of %s::%s has no tuple pattern' % (kth, container, name))
            m_ = rx_.match(text, ms_[kth - 1].start())
            text = text[:m_.start()] + 'for verif_x%d in %s { let %s = verif_x%d;' % (kth, m_.group(2), m_.group(1), kth) + text[m_.end():]
            rewrites['R17'] = rewrites.get('R17', 0) + 1
    for kind, arg, lines in subs:
        if kind == 'call_rename':
            # R7b: a call of a generic function at a concrete container type is directed to the instantiation of that function at this
            # type (monomorphization): `//@call_rename bits::read_int bits_mapped::read_int`
            a_, b_ = arg.split()
            text, k = re.subn(r'(?<![\w:])' + re.escape(a_) + r'\s*\(', b_ + '(', text)
            # (a rewrite, not a proof anchor: where the call does not occur there is nothing to redirect)
            if k:
                rewrites['R7'] = rewrites.get('R7', 0) + k
    for kind, arg, lines in subs:
        if kind == 'state_passing':
            # R21 (callee side): `//@state_passing PARAM STY` - state-passing form of a function that takes an `FnMut` closure.  Verus has no
            # closures that capture `&mut`; a closure that assigns ONE captured local is the same computation as a pure closure that takes the
            # local's value and returns the new value next to its result (the classical state-passing translation of FnMut):
            #   `F: FnMut(ARGS) -> RET` -> `F: Fn(ARGS, STY) -> (RET, STY)`,  `mut PARAM: F` -> `PARAM: F, verif_st: &mut STY`,
            #   every call `PARAM(X)` -> `({ let verif_sp = PARAM(X, *verif_st); *verif_st = verif_sp.1; verif_sp.0 })`
            prm_, sty_ = arg.split(None, 1)
            sty_ = sty_.strip()
            bo_ = Body(text).body_open()
            sig_, body_ = text[:bo_], text[bo_:]
            m_ = re.search(r'\bFnMut\(', sig_)
            if not m_ or not re.search(r'\bmut\s+' + re.escape(prm_) + r'\s*:\s*\w+', sig_):
                raise Undecided('anchor lost: no `FnMut` parameter `%s` in %s::%s' % (prm_, container, name))
            d_, j_ = 0, m_.end()
            while j_ < len(sig_):
                if sig_[j_] == '(':
                    d_ += 1
                elif sig_[j_] == ')':
                    if d_ == 0:
                        break
                    d_ -= 1
                j_ += 1
            mr_ = re.match(r'\s*->\s*([A-Za-z0-9_:]+)', sig_[j_ + 1:])
            if not mr_:
                raise Undecided('anchor lost: `FnMut` bound of %s::%s has no simple return type' % (container, name))
            sig_ = sig_[:m_.start()] + 'Fn(' + sig_[m_.end():j_] + ', ' + sty_ + ') -> (' + mr_.group(1) + ', ' + sty_ + ')' + sig_[j_ + 1 + mr_.end():]
            sig_ = re.sub(r'\bmut\s+' + re.escape(prm_) + r'(\s*:\s*\w+)', prm_ + r'\1, verif_st: &mut ' + sty_, sig_, count=1)
            out_, pos_, k_ = [], 0, 0
            cm_ = code_mask(body_)
            for mc_ in re.finditer(r'(?<![A-Za-z0-9_.])' + re.escape(prm_) + r'\(', body_):
                if mc_.start() < pos_ or not cm_[mc_.start()]:
                    continue
                d_, j_ = 0, mc_.end()
                while j_ < len(body_):
                    if body_[j_] in '([{':
                        d_ += 1
                    elif body_[j_] in ')]}':
                        if d_ == 0:
                            break
                        d_ -= 1
                    j_ += 1
                out_.append(body_[pos_:mc_.start()])
                out_.append('({ let verif_sp = %s(%s, *verif_st); *verif_st = verif_sp.1; verif_sp.0 })' % (prm_, body_[mc_.end():j_]))
                pos_ = j_ + 1
                k_ += 1
            out_.append(body_[pos_:])
            if not k_:
                raise Undecided('anchor lost: `%s` is never called in %s::%s' % (prm_, container, name))
            text = sig_ + ''.join(out_)
            rewrites['R21'] = rewrites.get('R21', 0) + k_ + 1
        if kind == 'state_passing_call':
            # R21 (caller side): `//@state_passing_call F F_ST VAR STY` - `X.F(|P| { BODY })` where BODY assigns the captured local VAR ->
            # `X.F_ST(|P, verif_st_in: STY| { let mut VAR = verif_st_in; BODY' }, &mut VAR)` with every `return E;` of BODY -> `return (E, VAR);`
            f_, fst_, var_, sty_ = arg.split(None, 3)
            sty_ = sty_.strip()
            m_ = re.search(r'\.' + re.escape(f_) + r'\(\s*\|([A-Za-z0-9_,: ]*)\|\s*\{', text)
            if not m_:
                raise Undecided('anchor lost: no call `.%s(|..| {` in %s::%s' % (f_, container, name))
            d_, j_ = 0, m_.end()
            while j_ < len(text):
                if text[j_] in '([{':
                    d_ += 1
                elif text[j_] in ')]}':
                    if d_ == 0:
                        break
                    d_ -= 1
                j_ += 1
            cb_ = text[m_.end():j_]
            if text[j_] != '}' or not re.match(r'\s*\)', text[j_ + 1:]) or re.search(r'\|[A-Za-z0-9_,: ]*\|', cb_):
                raise Undecided('anchor lost: the closure of `.%s(..)` in %s::%s is not a block that is the only argument' % (f_, container, name))
            if not re.search(r'(?<![A-Za-z0-9_.])' + re.escape(var_) + r'\s*=[^=]', cb_):
                raise Undecided('anchor lost: the closure of `.%s(..)` in %s::%s does not assign `%s`' % (f_, container, name, var_))
            if not re.search(r'\breturn\b[^;]*;\s*$', cb_):
                raise Undecided('anchor lost: the closure of `.%s(..)` in %s::%s does not end with a `return` statement' % (f_, container, name))
            cb2_, k_ = re.subn(r'\breturn\s+([^;]+);', lambda mm: 'return (%s, %s);' % (mm.group(1).strip(), var_), cb_)
            close_ = j_ + 1 + re.match(r'\s*\)', text[j_ + 1:]).end()
            text = (text[:m_.start()] + '.' + fst_ + '(|' + m_.group(1).strip() + ', verif_st_in: ' + sty_ + '| { let mut ' + var_ + ' = verif_st_in;' + cb2_
                    + '}, &mut ' + var_ + ')' + text[close_:])
            rewrites['R21'] = rewrites.get('R21', 0) + k_ + 1
    for kind, arg, lines in subs:
        if kind == 'deref_operand':
            text, k = rw_deref_operand(text, arg.strip())
            if not k:
                raise Undecided('anchor lost: no `%s & ..` in %s::%s' % (arg.strip(), container, name))
            rewrites['R14'] = rewrites.get('R14', 0) + k
    for kind, arg, lines in subs:
        if kind in ('desugar_for', 'desugar_for_into'):
            text, k = rw_for_iter(text, int(arg.strip() or '1'), into=(kind == 'desugar_for_into'))
            if not k:
                raise Undecided('anchor lost: no `for` loop #%s in %s::%s' % (arg, container, name))
            rewrites['R5'] = rewrites.get('R5', 0) + k
    if any(kind == 'desugar_by_ref' for kind, arg, lines in subs):
        text, k = rw_for_by_ref(text)
        if not k:
            raise Undecided('anchor lost: no `for .. in X.by_ref()` loop in %s::%s' % (container, name))
        rewrites['R5'] = k
    hdr_len = None
    b = Body(text)
    bo = b.body_open() if not sig_only else -1
    if sig_only:
        if text.rstrip().endswith('}'):
            # default method: keep only the signature
            bo = b.body_open()
            text = text[:bo].rstrip() + ';'
        b = Body(text)
        bo = -1
    # R3 on the signature part
    sig_end = bo if bo >= 0 else len(text)
    sig2, k = rw_underscore_params(text[:sig_end])
    if k:
        rewrites['R3'] = k
        text = sig2 + text[sig_end:]
        b = Body(text)
        bo = b.body_open() if not sig_only else -1
        sig_end = bo if bo >= 0 else len(text)

    # R7: instantiate a generic container parameter (//@inst T Vec<u64>)
    for kind, arg, lines in subs:
        if kind == 'inst':
            tv, ty = arg.split(None, 1)
            sig0 = text[:sig_end]
            sig1 = re.sub(r'<\s*' + re.escape(tv) + r'\s*:[^>]*>(\s*)>?', '', sig0, count=1) if re.search(r'<\s*' + re.escape(tv) + r'\s*:[^()]*>\s*\(', sig0) else sig0
            # the generic list may contain nested <...>: remove from '<T:' to the '(' that opens the parameter list
            mm = re.search(r'<\s*' + re.escape(tv) + r'\s*:', sig0)
            if mm:
                po = sig0.index('(', mm.end())
                sig1 = sig0[:mm.start()] + sig0[po:]
            sig1 = re.sub(r'(&\s*(?:mut\s+)?)' + re.escape(tv) + r'\b', lambda m_: m_.group(1) + ty.strip(), sig1)
            sig1 = re.sub(r'(:\s*)' + re.escape(tv) + r'(\s*[,)])', lambda m_: m_.group(1) + ty.strip() + m_.group(2), sig1)
            if sig1 == sig0:
                raise Undecided('R7: nothing to instantiate in %s::%s' % (container, name))
            text = sig1 + text[sig_end:]
            rewrites['R7'] = 1
            b = Body(text)
            bo = b.body_open() if not sig_only else -1
            sig_end = bo if bo >= 0 else len(text)
    # R10: alpha-rename a method-level generic parameter (//@rename_generic T WR), signature only
    for kind, arg, lines in subs:
        if kind == 'rename_generic':
            a, b_ = arg.split()
            sig0 = text[:sig_end]
            sig1 = re.sub(r'(?<![A-Za-z0-9_])' + re.escape(a) + r'(?![A-Za-z0-9_])', b_, sig0)
            if sig1 != sig0:
                text = sig1 + text[sig_end:]
                rewrites['R10'] = 1
                b = Body(text)
                bo = b.body_open() if not sig_only else -1
                sig_end = bo if bo >= 0 else len(text)
    r7_text = text

    stub = (mode == 'stub') or opts.get('status') == 'A'
    if not stub and not sig_only and bo >= 0:
        # every verified body: the number of closure-like `|..|` heads is locked.  A closure the proof was not written for has no
        # contract, Verus then knows nothing about its result, and a harmless rewrite would fail to verify (a false alarm)
        nheads = len([m for m in re.finditer(r'\|[A-Za-z0-9_,: ]*\|', b.text) if m.start() > bo and b.mask[m.start()] and closure_head_at(b.text, m.start())])
        ntup = len([m for m in re.finditer(r'\|\s*\([^|()]*\)\s*\|', b.text) if m.start() > bo and b.mask[m.start()] and closure_head_at(b.text, m.start())])
        # a SAFE function under contract: the number of unchecked operations in its body is locked.  The contract of a safe function speaks
        # about arguments inside its precondition; what happens outside it (panic, not an out-of-bounds access: C08) rests on WHICH
        # operations are unchecked, so a new one means the safety argument has to be looked at again - undecided, not passed
        # (not where the template also weaves a TOTAL variant of the same function - rewrite R20: that variant decides arguments outside the precondition)
        if not re.search(r'\bunsafe\s+fn\b', b.text[:bo]) and (container, name) not in TOTAL_VARIANTS:
            nun = len([m for m in re.finditer(r'_unchecked\s*\(|\bfrom_raw_parts(?:_mut)?\s*\(|\bunsafe\s*\{', raw) if code_mask(raw)[m.start()]])
            check_anchor('%s|unchecked-ops' % akey, nun)
        want_ = anchor_lock().get('%s|closure-heads' % akey)
        if want_ is not None and nheads + ntup > want_:
            # closures the proof was not written for.  Before giving up: R18 - `E.map(|PAT| X)` on an Option is, by std's definition,
            # `match E { Some(PAT) => Some(X), None => None }`; for a closure literal with an expression body (no block, no `return`, no `?`)
            # the application is beta-reduced, so no closure - and no missing closure contract - is left.  Where E is not an Option the
            # rewritten text does not type-check and the unit is undecided, exactly as it would be without the rewrite.
            t2, k2 = rw_option_map(text, bo)
            if k2:
                b2 = Body(t2)
                n2 = len([m for m in re.finditer(r'\|[A-Za-z0-9_,: ]*\|', b2.text) if m.start() > bo and b2.mask[m.start()] and closure_head_at(b2.text, m.start())]) \
                    + len([m for m in re.finditer(r'\|\s*\([^|()]*\)\s*\|', b2.text) if m.start() > bo and b2.mask[m.start()] and closure_head_at(b2.text, m.start())])
                if n2 == want_:
                    text, b = t2, b2
                    bo = b.body_open()
                    sig_end = bo
                    r7_text = text
                    rewrites['R18'] = k2
                    nheads, ntup = n2, 0
        check_anchor('%s|closure-heads' % akey, nheads + ntup)
    spec_lines = []
    attrs = []
    ret = None
    prefix = ''
    # collect sub-directives
    for kind, arg, lines in subs:
        body_text = '\n'.join(lines)
        if kind in ('inst', 'rename_generic', 'desugar_by_ref', 'desugar_for', 'desugar_for_into', 'desugar_closure_patterns', 'model_adapters', 'deref_operand', 'call_rename', 'state_passing', 'state_passing_call', 'collect_as', 'hoist_for_pattern', 'assoc_type', 'panic_atomic', 'checked_index_total', 'wrapping_add_assign'):
            continue
        if kind == 'attr':
            if not sig_only:
                attrs.append(arg.strip())
            continue
        if kind == 'ret':
            ret = arg.strip()
        elif kind == 'spec':
            spec_lines.append(body_text)
        elif stub or sig_only:
            continue
        elif kind == 'entry':
            b.add(bo + 1, '\n' + body_text + '\n')
        elif kind == 'exit':
            b.add(b.match_close(bo), body_text + '\n')
        elif kind == 'tail':
            # start of the tail expression: after the last top-level `;` or block-closing `}` that is followed by
            # something other than `else` / nothing
            cl = b.match_close(bo)
            cands = [bo]
            d = 0
            for i in range(bo + 1, cl):
                if not b.mask[i]:
                    continue
                ch = b.text[i]
                if ch in '{([':
                    d += 1
                elif ch in '})]':
                    d -= 1
                    if ch == '}' and d == 0:
                        cands.append(i)
                elif ch == ';' and d == 0:
                    cands.append(i)
            last = bo
            for cpos in reversed(cands):
                rest = ''.join(c for k, c in enumerate(b.text[cpos + 1:cl]) if b.mask[cpos + 1 + k]).strip()
                if rest and not rest.startswith('else') and not rest.startswith('.') and not rest.startswith('?'):
                    last = cpos
                    break
            b.add(last + 1, '\n' + body_text + '\n')
        elif kind in ('loop', 'loopbody', 'loopend', 'loopafter'):
            parts = arg.split()
            kk = int(parts[0])
            loops = b.loops()
            if not loops and anchor_lock().get('%s|loops' % akey):
                # the body no longer contains ANY loop (a loop replaced by a closed form): there is nothing to attach an invariant to, and the
                # straight-line body is decided by the contract alone - the postcondition that passed on the tree the proof was written for
                ANCHOR_SEEN['%s|loops' % akey] = anchor_lock().get('%s|loops' % akey)
                continue
            check_anchor('%s|loops' % akey, len(loops))
            if kk > len(loops):
                raise Undecided('anchor lost: loop %d of %s::%s' % (kk, container, name))
            kwpos, kw, lo, lc = loops[kk - 1]
            if kind == 'loop':
                for p in parts[1:]:
                    if p.startswith('bind='):
                        if kw != 'for':
                            raise Undecided('anchor lost: loop %d of %s::%s is not a for loop' % (kk, container, name))
                        m = re.compile(r'\bin\b').search(b.text, kwpos, lo)
                        b.add(m.end(), ' ' + p[5:] + ':')
                b.add(lo, '\n' + body_text + '\n')
            elif kind == 'loopbody':
                b.add(lo + 1, '\n' + body_text + '\n')
            elif kind == 'loopend':
                b.add(lc, body_text + '\n')
            elif kind == 'loopafter':
                b.add(lc + 1, '\n' + body_text + '\n')
        elif kind == 'closure':
            # //@closure K RET_TYPE : contract text for the K-th closure that is the last argument of a call; its body expression
            # gets braces: `|x| e)` -> `|x| -> (ret: RET_TYPE) <text> { e })`  (insertions only)
            parts = arg.split(None, 1)
            kk = int(parts[0]); rty = parts[1].strip() if len(parts) > 1 else 'bool'
            heads = [m for m in re.finditer(r'\|[A-Za-z0-9_,: ]*\|', b.text) if m.start() > bo and b.mask[m.start()]]
            if kk > len(heads):
                raise Undecided('anchor lost: closure %d of %s::%s' % (kk, container, name))
            check_anchor('%s|closures' % akey, len(heads))
            h = heads[kk - 1]
            d = 0
            j = h.end()
            while j < len(b.text):
                if b.mask[j]:
                    ch = b.text[j]
                    if ch in '({[':
                        d += 1
                    elif ch in ')}]':
                        if d == 0:
                            break
                        d -= 1
                    elif ch == ',' and d == 0:
                        break       # (the closure is followed by another argument: R21)
                j += 1
            if j >= len(b.text) or b.text[j] not in '),':
                raise Undecided('anchor lost: closure %d of %s::%s is not a last call argument' % (kk, container, name))
            b.add(h.end(), ' -> (ret: %s)\n%s\n{' % (rty, body_text))
            b.add(j, ' }')
        elif kind == 'afterblock':
            # after the closing brace of the block statement (if / if-let / match / unsafe ... with its else branches) that starts at the token
            m = re.match(r'\s*"((?:[^"\\]|\\.)*)"\s*(?:#(\d+))?\s*$', arg)
            if not m:
                raise Undecided('bad anchor syntax: %s' % arg)
            needle = m.group(1).replace('\\"', '"')
            kth = int(m.group(2) or 1)
            check_anchor('%s|%s' % (akey, needle), count_code(b, needle, bo))
            pos = bo
            for _ in range(kth):
                pos = b.code_find(needle, pos + 1)
                if pos < 0:
                    raise Undecided('anchor lost: %r in %s::%s' % (needle, container, name))
            j = pos
            while True:
                while j < len(b.text) and not (b.mask[j] and b.text[j] == '{'):
                    j += 1
                if j >= len(b.text):
                    raise Undecided('anchor lost (no block): %r in %s::%s' % (needle, container, name))
                d = 0
                while j < len(b.text):
                    if b.mask[j]:
                        if b.text[j] == '{':
                            d += 1
                        elif b.text[j] == '}':
                            d -= 1
                            if d == 0:
                                break
                    j += 1
                k = j + 1
                while k < len(b.text) and b.text[k].isspace():
                    k += 1
                if b.text.startswith('else', k):
                    j = k + 4
                    continue
                break
            b.add(j + 1, '\n' + body_text + '\n')
        elif kind == 'blockend':
            # at the END of the innermost block that contains the token: right before its closing brace (a hint that needs the locals of the
            # block and the state after its last statement, whatever that statement is)
            m = re.match(r'\s*"((?:[^"\\]|\\.)*)"\s*(?:#(\d+))?\s*$', arg)
            if not m:
                raise Undecided('bad anchor syntax: %s' % arg)
            needle = m.group(1).replace('\\"', '"')
            kth = int(m.group(2) or 1)
            check_anchor('%s|%s' % (akey, needle), count_code(b, needle, bo))
            pos = bo
            for _ in range(kth):
                pos = b.code_find(needle, pos + 1)
                if pos < 0:
                    raise Undecided('anchor lost: %r in %s::%s' % (needle, container, name))
            d = 0
            j = pos
            while j < len(b.text):
                if b.mask[j]:
                    if b.text[j] == '{':
                        d += 1
                    elif b.text[j] == '}':
                        if d == 0:
                            break
                        d -= 1
                j += 1
            if j >= len(b.text):
                raise Undecided('anchor lost (no enclosing block): %r in %s::%s' % (needle, container, name))
            b.add(j, '\n' + body_text + '\n')
        elif kind == 'afteropen':
            # at the head of the block that follows the token (`None => {`, `else {`): right after its opening brace
            m = re.match(r'\s*"((?:[^"\\]|\\.)*)"\s*(?:#(\d+))?\s*$', arg)
            if not m:
                raise Undecided('bad anchor syntax: %s' % arg)
            needle = m.group(1).replace('\\"', '"')
            kth = int(m.group(2) or 1)
            check_anchor('%s|%s' % (akey, needle), count_code(b, needle, bo))
            pos = bo
            for _ in range(kth):
                pos = b.code_find(needle, pos + 1)
                if pos < 0:
                    raise Undecided('anchor lost: %r in %s::%s' % (needle, container, name))
            j = pos + len(needle)
            while j < len(b.text) and not (b.mask[j] and b.text[j] == '{'):
                if b.mask[j] and b.text[j] in ';}':
                    raise Undecided('anchor lost (no block after): %r in %s::%s' % (needle, container, name))
                j += 1
            if j >= len(b.text):
                raise Undecided('anchor lost (no block after): %r in %s::%s' % (needle, container, name))
            b.add(j + 1, '\n' + body_text + '\n')
        elif kind == 'lettype':
            nm, ty = arg.split(None, 1)
            needle = 'let %s;' % nm
            check_anchor('%s|%s' % (akey, needle), count_code(b, needle, bo))
            pos = b.code_find(needle, bo + 1)
            if pos < 0:
                raise Undecided('anchor lost: %r in %s::%s' % (needle, container, name))
            b.add(pos + len('let %s' % nm), ': ' + ty.strip())
        elif kind in ('before', 'after'):
            m = re.match(r'\s*"((?:[^"\\]|\\.)*)"\s*(?:#(\d+))?\s*$', arg)
            if not m:
                raise Undecided('bad anchor syntax: %s' % arg)
            needle = m.group(1).replace('\\"', '"')
            kth = int(m.group(2) or 1)
            check_anchor('%s|%s' % (akey, needle), count_code(b, needle, bo))
            pos = bo
            for _ in range(kth):
                pos = b.code_find(needle, pos + 1)
                if pos < 0:
                    raise Undecided('anchor lost: %r in %s::%s' % (needle, container, name))
            if kind == 'before':
                b.add(b.stmt_start(pos), body_text + '\n')
            else:
                d = 0
                j = pos
                while j < len(b.text):
                    if b.mask[j]:
                        ch = b.text[j]
                        if ch in '{([':
                            d += 1
                        elif ch in '})]':
                            d -= 1
                            if d < 0:
                                break
                        elif ch == ';' and d == 0:
                            break
                    j += 1
                if j >= len(b.text) or b.text[j] != ';':
                    raise Undecided('anchor lost (no statement end): %r in %s::%s' % (needle, container, name))
                b.add(j + 1, '\n' + body_text + '\n')
        else:
            raise Undecided('unknown sub-directive %s' % kind)

    # signature-level insertions
    if sig_only:
        sig_end = text.rstrip().rfind(';')
    sig_text = text[:sig_end]
    if ret:
        # the `->` of the function itself: the one after the parameter list (generic bounds may contain `Fn(..) -> T`)
        mfn = re.search(r'\bfn\s+' + re.escape(name) + r'\b', sig_text)
        pos0 = mfn.end() if mfn else 0
        # skip the generic parameter list, if any
        k = pos0
        while k < len(sig_text) and sig_text[k].isspace():
            k += 1
        if k < len(sig_text) and sig_text[k] == '<':
            d = 0
            while k < len(sig_text):
                ch = sig_text[k]
                if ch == '<':
                    d += 1
                elif ch == '>' and sig_text[k - 1] != '-':
                    d -= 1
                    if d == 0:
                        k += 1
                        break
                k += 1
        po = sig_text.find('(', k)
        d = 0
        pc = po
        while pc >= 0 and pc < len(sig_text):
            if sig_text[pc] == '(':
                d += 1
            elif sig_text[pc] == ')':
                d -= 1
                if d == 0:
                    break
            pc += 1
        m = re.compile(r'->\s*').search(sig_text, pc if po >= 0 else 0)
        if not m:
            raise Undecided('ret given but no return type: %s::%s' % (container, name))
        # return type runs to the where clause or the end of the signature
        w = re.search(r'\bwhere\b', sig_text[m.end():])
        te = m.end() + w.start() if w else len(sig_text)
        te2 = len(sig_text[:te].rstrip())
        b.add(m.end(), '(' + ret + ': ')
        b.add(te2, ')')
    # R8: visibility has no run-time meaning; inherent methods and free functions are widened to pub by default so that a
    # change that starts calling a private helper from another module still type-checks in the unit
    inherent = container in ('-', '') or (container.lstrip().startswith('impl') and ' for ' not in container)
    if (opts.get('vis') == 'pub' or (inherent and not sig_only and opts.get('vis') != 'keep')) and not sig_text.lstrip().startswith('pub'):
        prefix = 'pub '
    if opts.get('rename'):
        m = re.search(r'\bfn\s+(' + re.escape(name) + r')\b', sig_text)
        # renaming is a rewrite, not an insertion: do it on the text and record it
        rewrites['R4b-rename'] = 1
    spec = '\n'.join(spec_lines)
    if sig_only:
        semi = text.rstrip().rfind(';')
        b.add(semi, '\n' + spec + '\n')
    elif stub:
        pass
    else:
        b.add(bo, '\n' + spec + '\n')

    segs = b.render()
    if stub and not sig_only:
        # contract only: signature (with ret naming) + spec, body replaced
        keep = []
        for sg in segs:
            if sg[0] == 'src':
                off = sg[2]
                if off >= bo:
                    continue
                keep.append(('src', sg[1][:max(0, bo - off)], off))
            else:
                keep.append(sg)
        # drop insertions that landed in the body (there are none in stub mode) and append the contract
        segs = keep + [('ins', ins('\n' + spec + '\n{ unimplemented!() }'))]
        attr = '#[verifier::external_body]\n'
    else:
        attr = ''
    woven = ''.join(sg[1] for sg in segs)
    # identity audit
    expect = text[:bo] if (stub and not sig_only) else text
    if norm_tokens(strip_inserted(woven)) != norm_tokens(expect):
        raise Undecided('identity audit failed for %s::%s' % (container, name))
    if opts.get('rename'):
        woven = re.sub(r'\bfn\s+' + re.escape(name) + r'\b', 'fn ' + opts['rename'], woven, count=1)
    # line map: for each line of `woven`, the repository line (or 0 for inserted lines)
    linemap = []
    cur_line_src = None
    for sg in segs:
        if sg[0] == 'src':
            base = line0 + text.count('\n', 0, sg[2])
            parts = sg[1].split('\n')
            for idx, _ in enumerate(parts):
                if idx == 0:
                    if cur_line_src is None:
                        cur_line_src = base
                else:
                    linemap.append(cur_line_src or 0)
                    cur_line_src = base + idx
        else:
            parts = sg[1].split('\n')
            for idx, _ in enumerate(parts):
                if idx > 0:
                    linemap.append(cur_line_src or 0)
                    cur_line_src = None
    linemap.append(cur_line_src or 0)
    if attrs and not stub:
        attr = attr + ins('\n'.join(attrs)) + '\n'
    out = attr + prefix + woven
    if attr:
        linemap = [0] * attr.count('\n') + linemap
    rec = {
        'fn': (container + ' :: ' + name) if container not in ('-', '') else name,
        'file': os.path.relpath(src.path, src.root) if hasattr(src, 'root') else src.path,
        'line': line0,
        'end_line': src.line_of(c),
        'rendered': 'sig' if sig_only else ('stub' if stub else 'body'),
        'status_opt': opts.get('status', ''),
        'props': [p for p in opts.get('props', '').split(',') if p],
        'rewrites': rewrites,
        'sha': hashlib.sha256(raw.encode()).hexdigest()[:16],
        'calls': called_names(raw) if not sig_only else [],
    }
    return out, rec, linemap


def weave_struct(src, name, keep_derive, container='-', derive=None):
    for kind in ('struct', 'enum'):
        try:
            s, e = src.find_item(kind, name, container)
            break
        except Lost:
            continue
    else:
        raise Lost('struct/enum not found: %s in %s' % (name, src.path))
    text = src.text[s:e + 1]
    # drop doc comments and widen fields to pub (R1, R8)
    lines = []
    for ln in text.split('\n'):
        st = ln.strip()
        if st.startswith('///') or st.startswith('//'):
            continue
        m = re.match(r'^(\s*)([a-z_][A-Za-z0-9_]*\s*:.*)$', ln)
        if m and kind == 'struct':
            ln = m.group(1) + 'pub ' + m.group(2)
        lines.append(ln)
    out = '\n'.join(lines)
    if not out.lstrip().startswith('pub'):
        out = 'pub ' + out
    if derive:
        # keep the requested derives, provided the source really has them (R1 drops the others)
        pre = src.text[max(0, s - 400):s]
        m = None
        for m in re.finditer(r'#\[derive\(([^)]*)\)\]', pre):
            pass
        have = [d.strip() for d in m.group(1).split(',')] if m else []
        for d in derive:
            if d not in have:
                raise Lost('derive(%s) no longer present on %s' % (d, name))
        out = '#[derive(%s)]\n' % ', '.join(derive) + out
    return out, src.line_of(s)


def weave_const(src, name, container='-'):
    for kind in ('const', 'static'):
        try:
            s, e = src.find_item(kind, name, container)
            return src.text[s:e + 1], src.line_of(s)
        except Lost:
            continue
    raise Lost('const not found: %s in %s' % (name, src.path))


def stub_lemmas(text):
    src = Source('<lemmas>', text)
    out = []
    cur = 0
    for st, en in src.finditer_code(r'(?<![A-Za-z0-9_])((pub\s+)?(broadcast\s+)?proof\s+fn\s+[A-Za-z0-9_]+)'):
        if st < cur:
            continue
        o = src.header_end(en, len(text))
        if text[o] != '{':
            continue
        c = src.match_close(o)
        # termination helpers (#[via_fn]) must keep their bodies: the recursive spec fn they justify stays open in stub mode
        if re.search(r'#\[via_fn\]\s*$', text[max(0, st - 40):st]):
            continue
        attr_start = st
        out.append(text[cur:attr_start])
        out.append('#[verifier::external_body] /* lemma proved in its home unit */ ')
        out.append(text[st:o])
        out.append('{ unimplemented!() }')
        cur = c + 1
    out.append(text[cur:])
    return ''.join(out)


DIRECTIVE = re.compile(r'^\s*//@(\w+)\s*(.*)$')


def parse_opts(tokens):
    opts = {}
    nth = 1
    for t in tokens:
        if t.startswith('#'):
            nth = int(t[1:])
        elif '=' in t:
            k, v = t.split('=', 1)
            opts[k] = v
        else:
            opts[t] = True
    return nth, opts


class Unit:
    def __init__(self, repo, name):
        self.repo = repo
        self.name = name
        self.out = []       # output lines
        self.linemap = []   # per output line: (file, line) or None
        self.fns = []       # records
        self.items = []
        self.sources = {}

    def source(self, rel):
        if rel not in self.sources:
            macro = None
            if ' !' in rel:
                # `FILE !NAME($a=X,$b=Y)`: rewrite R13, one arm of a macro_rules! definition instantiated at an invocation that exists
                rel_file, macro = rel.split(' !', 1)
            else:
                rel_file = rel
            p = os.path.join(self.repo, rel_file)
            if not os.path.exists(p):
                raise Undecided('source file missing: %s' % rel_file)
            if macro:
                s = Source(p, text=expand_macro(open(p).read(), macro, rel_file))
                s.macro = macro
            else:
                s = Source(p)
            s.root = self.repo
            self.sources[rel] = s
        return self.sources[rel]

    def emit(self, text, maplines=None, file=None):
        lines = text.split('\n')
        for i, ln in enumerate(lines):
            self.out.append(ln)
            if maplines and i < len(maplines) and maplines[i]:
                self.linemap.append((file, maplines[i]))
            else:
                self.linemap.append(None)

    def process(self, template, mode='verify', cur_src=None):
        path = os.path.join(SPECS, template)
        lines = read_template(path)
        i = 0
        skipping = False
        plain = []
        block_hdr = ''
        pending_blocks = []

        def flush():
            if plain:
                txt = '\n'.join(plain)
                if mode == 'stub':
                    # lemmas (free or law proofs inside impl blocks) are proved in the home unit only
                    txt = stub_lemmas(txt)
                self.emit(txt)
                del plain[:]
        while i < len(lines):
            ln = lines[i]
            m = DIRECTIVE.match(ln)
            if not m:
                if not skipping:
                    plain.append(ln)
                    if re.match(r'\s*(?:pub\s+)?(?:impl\b|trait\b|pub trait\b).*\{\s*(?://.*)?$', ln):
                        block_hdr = ln.strip()
                    if pending_blocks and re.match(r'^\s{0,4}\}\s*$', ln):
                        # the impl block that was open when a sub-trait override was found is closed: its sub-trait block follows
                        flush()
                        for (hdr_, xt_, xr_, xl_, src2_) in pending_blocks:
                            self.emit('    ' + hdr_ + ' {')
                            xr_['unit_line'] = len(self.out) + 2
                            self.emit('// extracted from %s:%d (R24: a new override, verified against the contract of the model sub-trait)' % (src2_, xr_['line']))
                            self.emit(xt_, xl_, src2_)
                            xr_['unit_end_line'] = len(self.out)
                            self.fns.append(xr_)
                            self.emit('    }')
                        del pending_blocks[:]
                i += 1
                continue
            flush()
            d, arg = m.group(1), m.group(2).strip()
            i += 1
            if d == 'end':
                skipping = False
                continue
            if skipping:
                continue
            if d == 'lemmas':
                # a block of proof lemmas: verified in the home unit (verify mode); where the template is included as
                # `stub`, each lemma keeps its statement and loses its body (it is proved in the home unit)
                blk = []
                while i < len(lines) and not (DIRECTIVE.match(lines[i]) and DIRECTIVE.match(lines[i]).group(1) == 'end'):
                    blk.append(lines[i]); i += 1
                i += 1
                text = '\n'.join(blk)
                if mode == 'stub':
                    text = stub_lemmas(text)
                self.emit(text)
                continue
            if d == 'verify_only':
                skipping = (mode != 'verify')
            elif d == 'stub_only':
                skipping = (mode != 'stub')
            elif d == 'include':
                parts = arg.split()
                sub_mode = parts[1] if len(parts) > 1 else mode
                if mode == 'stub':
                    sub_mode = 'stub'
                self.process(parts[0], sub_mode)
            elif d == 'src':
                cur_src = arg
            elif d == 'struct':
                parts = arg.split()
                container = '-'
                derive = None
                for p_ in parts[1:]:
                    if p_.startswith('derive='):
                        derive = p_[7:].split(',')
                text, line = weave_struct(self.source(cur_src), parts[0], False, derive=derive)
                self.emit('// extracted from %s:%d' % (cur_src, line))
                self.emit(text)
                self.items.append({'item': 'struct ' + parts[0], 'file': cur_src, 'line': line})
            elif d == 'const':
                container = '-'
                if '::' in arg:
                    container, arg = arg.rsplit('::', 1)
                    container = container.strip()
                parts = arg.split()
                text, line = weave_const(self.source(cur_src), parts[0], container)
                if 'pub' in parts[1:] and not text.startswith('pub'):
                    text = 'pub ' + text
                if 'external' in parts[1:]:
                    # the initializer is outside the verifier's reach (e.g. a shift in a const context); its value is assumed
                    # in the template and checked by a Kani harness
                    text = '#[verifier::external_body]\n' + text
                self.emit('// extracted from %s:%d' % (cur_src, line))
                self.emit(text, [line + k for k in range(text.count('\n') + 1)], cur_src)
                self.items.append({'item': 'const ' + parts[0], 'file': cur_src, 'line': line})
            elif d in ('fn', 'sig'):
                if '::' in arg:
                    container, rest = arg.rsplit('::', 1)
                else:
                    container, rest = '-', arg
                container = container.strip()
                toks = rest.split()
                name = toks[0]
                nth, opts = parse_opts(toks[1:])
                subs = []
                while i < len(lines):
                    m2 = DIRECTIVE.match(lines[i])
                    if m2:
                        if m2.group(1) == 'endfn':
                            i += 1
                            break
                        subs.append((m2.group(1), m2.group(2), []))
                    else:
                        if subs:
                            subs[-1][2].append(lines[i])
                    i += 1
                # R24: the impl block of the source defines MORE methods than the template has contracts for: a new override of a provided
                # trait method.  Inside a trait impl of the unit (the model trait carries the contracts of its provided methods, and Verus checks
                # every method of an impl against the trait's contract) the new override is woven as it is, next to the others: it is then
                # verified against the contract of the method it overrides.  A method the model trait does not have is a type error (the unit is
                # undecided, as before); in a block of inherent functions (R4b) the function count stays locked
                # R24 (continued): the template weaves the PROVIDED method of a trait at a type (`//@fn pub trait Access :: get_or` inside
                # `impl IntVector {`, R4b) and the type's impl of that trait now overrides the method: the override is what runs, it is woven
                # in place of the provided method and verified against the same contract
                src_over = None
                mt_ = re.match(r'pub trait\s+(\w+)$', container)
                if d == 'fn' and mt_ and block_hdr.lstrip().startswith('impl') and not opts.get('rename'):
                    ty_ = type_of_header(block_hdr)
                    import glob as glob_
                    rx_ = re.compile(r"impl\s*(?:<[^>{]*>\s*)?" + re.escape(mt_.group(1)) + r"\s*(?:<[^>{]*>\s*)?for\s+" + re.escape(ty_) + r"\s*(?:<[^>{]*>\s*)?(?=\{|where)")
                    for p_ in sorted(glob_.glob(os.path.join(self.repo, 'src', '**', '*.rs'), recursive=True)):
                        rel_ = os.path.relpath(p_, self.repo)
                        if rel_.endswith('tests.rs') or '/tests/' in rel_:
                            continue
                        t_ = self.source(rel_)
                        for s_, e_ in t_.finditer_code(rx_.pattern):
                            hdr_ = t_.text[s_:e_].strip()
                            try:
                                t_.find_fn(hdr_, name, 1)
                            except Lost:
                                continue
                            src_over = (rel_, hdr_)
                            break
                        if src_over:
                            break
                if src_over:
                    keep_src = cur_src
                    cur_src, container = src_over
                    opts = dict(opts, _extras_ok='1', _r24='1')
                xkey = (cur_src, container, self.name, template)
                if (d == 'fn' and mode == 'verify' and container.startswith('impl') and ' for ' in container and ' for ' in block_hdr
                        and block_hdr.lstrip().startswith('impl') and xkey not in getattr(self, 'extras_done', set()) and not opts.get('rename')):
                    self.extras_done = getattr(self, 'extras_done', set()) | {xkey}
                    src_ = self.source(cur_src)
                    have_ = set()
                    for ln_ in lines:
                        md_ = DIRECTIVE.match(ln_)
                        if md_ and md_.group(1) in ('fn', 'sig') and '::' in md_.group(2):
                            c_, r_ = md_.group(2).rsplit('::', 1)
                            if c_.strip() == container:
                                have_.add(r_.split()[0])
                    extra_ = []
                    try:
                        for (o_, c_) in src_.containers(container):
                            for s_, e_ in src_.finditer_code(r'(?<![A-Za-z0-9_])fn\s+([A-Za-z0-9_]+)', o_ + 1, c_):
                                if src_.depth_at(s_, o_ + 1) == 0:
                                    nm_ = re.search(r'fn\s+([A-Za-z0-9_]+)', src_.text[s_:e_]).group(1)
                                    if nm_ not in have_:
                                        extra_.append(nm_)
                    except Lost:
                        extra_ = []
                    newn_ = new_impl_fns(cur_src.split(' !')[0], container, sorted(have_) + extra_)
                    extra_ = [n_ for n_ in extra_ if n_ in newn_]
                    if extra_:
                        for nm_ in extra_:
                            xt_, xr_, xl_ = weave_fn(src_, container, nm_, 1, {'props': opts.get('props', ''), '_extras_ok': '1'}, [], mode)
                            xr_['file'] = cur_src
                            xr_['unit'] = self.name
                            xr_['rewrites'] = dict(xr_['rewrites'], R24=1)
                            xr_['new_override'] = True
                            sub_ = {('Iterator', 'nth'): 'IteratorNth', ('DoubleEndedIterator', 'nth_back'): 'DoubleEndedIteratorNth'}
                            mt2_ = re.match(r"(impl\s*(?:<[^>]*>\s*)?)([A-Za-z_][A-Za-z0-9_]*)(.*)$", container)
                            if mt2_ and (mt2_.group(2), nm_) in sub_:
                                # R4a: the model keeps `nth` / `nth_back` in a sub-trait (a provided method cannot be overridden with a stronger
                                # contract in Verus): the override goes into an impl block of that sub-trait, after the current block
                                pending_blocks.append((mt2_.group(1) + sub_[(mt2_.group(2), nm_)] + mt2_.group(3), xt_, xr_, xl_, cur_src))
                                continue
                            xr_['unit_line'] = len(self.out) + 2
                            self.emit('// extracted from %s:%d (R24: a new override, verified against the contract of the trait method)' % (cur_src, xr_['line']))
                            self.emit(xt_, xl_, cur_src)
                            xr_['unit_end_line'] = len(self.out)
                            self.fns.append(xr_)
                        self.extras_ok = getattr(self, 'extras_ok', set()) | {(cur_src, container)}
                if (cur_src, container) in getattr(self, 'extras_ok', set()):
                    opts = dict(opts, _extras_ok='1')
                try:
                    text, rec, lmap = weave_fn(self.source(cur_src), container, name, nth, opts, subs, mode, sig_only=(d == 'sig'))
                except Undecided as e_:
                    # an anchor of THIS function is lost.  Where the template also weaves a total variant of the same source function (R20),
                    # that variant can still decide: the function is rendered as its contract only (no proof hints, body not verified)
                    # and the loss is recorded - the unit is undecided unless something else in it fails
                    if d == 'fn' and mode == 'verify' and (container, name) in TOTAL_VARIANTS and not str(opts.get('rename', '')).endswith('_total'):
                        keep = [x for x in subs if x[0] in ('ret', 'spec', 'inst', 'rename_generic')]
                        text, rec, lmap = weave_fn(self.source(cur_src), container, name, nth, dict(opts, status='A'), keep, mode, sig_only=False)
                        self.lost = getattr(self, 'lost', []) + [str(e_)]
                    else:
                        raise
                rec['file'] = cur_src
                rec['unit'] = self.name
                rec['unit_line'] = len(self.out) + 2
                if src_over:
                    rec['rewrites'] = dict(rec['rewrites'], R24=1)
                self.emit('// extracted from %s:%d' % (cur_src, rec['line']))
                self.emit(text, lmap, cur_src)
                rec['unit_end_line'] = len(self.out)
                self.fns.append(rec)
                if src_over:
                    cur_src = keep_src
            else:
                raise Undecided('unknown directive //@%s in %s' % (d, template))
        flush()
        return self

    def text(self):
        return '\n'.join(self.out) + '\n'


def build_unit(repo, name, template=None):
    u = Unit(repo, name)
    u.process(template or ('units/%s.vrs' % name))
    return u


def relock_anchors(repo):
    import glob
    os.environ['VERIF_RELOCK'] = '1'
    global _anchor_lock
    _anchor_lock = {}
    ANCHOR_SEEN.clear()
    for pth in sorted(glob.glob(os.path.join(SPECS, 'units', '*.vrs'))):
        build_unit(repo, os.path.basename(pth)[:-4])
    json.dump(ANCHOR_SEEN, open(ANCHOR_LOCK_PATH, 'w'), indent=0, sort_keys=True)
    return len(ANCHOR_SEEN)


if __name__ == '__main__':
    if sys.argv[1] == '--relock-anchors':
        print('anchors locked:', relock_anchors(sys.argv[2] if len(sys.argv) > 2 else '/repo'))
        sys.exit(0)
    repo = sys.argv[1]
    name = sys.argv[2]
    try:
        u = build_unit(repo, name)
    except (Lost, Undecided) as e:
        print('UNDECIDED:', e, file=sys.stderr)
        sys.exit(2)
    out = sys.argv[3] if len(sys.argv) > 3 else '/dev/stdout'
    open(out, 'w').write(u.text())
    json.dump({'fns': u.fns, 'items': u.items, 'lost': getattr(u, 'lost', [])}, sys.stderr, indent=1)
