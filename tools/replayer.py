#!/usr/bin/env python3
"""Search for a concrete failing input for a property whose deductive check reported a failed obligation.

NEVER used to decide anything: tools/runner.py reports the violation whether or not an input is found.  The search runs the
native differential tests of replay/replay.rs (public API against naive reference models) for the property, in debug and
release, on a SCRATCH copy of the tree under test; the scratch copy (with its target directory) is removed afterwards.

  python3 tools/replayer.py --rerun <PID> <test name> [--repo DIR]     re-executes one recorded failing test (exit 1 if it fails)
"""
import os, re, shutil, subprocess, sys, tempfile

HERE = os.path.dirname(os.path.abspath(__file__))
ROOT = os.path.dirname(HERE)

TESTS = {
    'C01': ['c01_', 'c10_'], 'C02': ['c02_', 'c10_'], 'C03': ['c03_'], 'C04': ['c04_'], 'C05': ['c05_'], 'C06': ['c06_'], 'C07': ['c06_', 'c02_'],
    'C08': ['c01_', 'c02_', 'c05_', 'c09_', 'c10_'], 'C09': ['c09_'], 'C10': ['c10_', 'c09_'], 'C11': ['c11_'], 'C12': ['c12_'],
    'C14': ['c06_'], 'C15': ['c15_', 'c10_'], 'C16': ['c16_'], 'C17': ['c17_'], 'C19': ['c06_', 'c01_'],
}


def _scratch(repo):
    d = tempfile.mkdtemp(prefix='verif-replay-')
    for f in ('src', 'Cargo.toml', 'Cargo.lock'):
        p = os.path.join(repo, f)
        if os.path.isdir(p):
            shutil.copytree(p, os.path.join(d, f))
        elif os.path.exists(p):
            shutil.copy(p, d)
    os.makedirs(os.path.join(d, 'tests'))
    shutil.copy(os.path.join(ROOT, 'replay', 'replay.rs'), os.path.join(d, 'tests', 'replay.rs'))
    return d


def _run(d, filt, release, seed, exact=False, timeout=900):
    cmd = ['cargo', 'test', '--offline', '--test', 'replay']
    if release:
        cmd.append('--release')
    cmd += ['--', filt] + (['--exact'] if exact else []) + ['--test-threads', '4']
    env = dict(os.environ, CARGO_NET_OFFLINE='true', VERIF_SEED=str(seed or 0), RUST_BACKTRACE='0')
    try:
        p = subprocess.run(cmd, cwd=d, env=env, stdout=subprocess.PIPE, stderr=subprocess.STDOUT, text=True, timeout=timeout)
        return p.returncode, p.stdout
    except subprocess.TimeoutExpired:
        return -9, 'timed out'


def _first_failure(out):
    m = re.search(r'---- (\S+) stdout ----\n(.*?)(?=\n---- |\nfailures:|\Z)', out, re.S)
    if m:
        msg = re.sub(r'\s+', ' ', m.group(2)).strip()
        return m.group(1), msg[:600]
    m = re.search(r'test (\S+) \.\.\. FAILED', out)
    if m:
        return m.group(1), 'failed (no message captured; abort or signal)'
    if 'SIGSEGV' in out or 'SIGABRT' in out or 'signal:' in out:
        return None, 'test binary died: ' + out[-300:]
    return None, None


def search(pid, violations, repo, seed):
    """returns a dict describing a concrete failing input, or None"""
    prefixes = TESTS.get(pid)
    if not prefixes or os.environ.get('VERIF_NO_REPLAYER'):
        return None
    d = _scratch(repo)
    try:
        for release in (False, True):
            for pre in prefixes:
                rc, out = _run(d, pre, release, seed)
                if rc == 0:
                    continue
                test, msg = _first_failure(out)
                if test or msg:
                    return {
                        'kind': 'native differential test (replay/replay.rs) against a naive reference model, public API only',
                        'test': test, 'profile': 'release' if release else 'debug', 'seed': seed or 0, 'observed': msg,
                        'cmd': 'python3 %s --rerun %s %s %s--repo %s' % (os.path.join(ROOT, 'tools', 'replayer.py'), pid, test or pre,
                                                                        '--release ' if release else '', repo),
                    }
        return None
    finally:
        shutil.rmtree(d, ignore_errors=True)
        _clean_temp()


def _clean_temp():
    # the writer tests of replay.rs create small files in the system temp directory
    import glob
    for f in glob.glob(os.path.join(tempfile.gettempdir(), 'verif-replay-*_*')):
        if os.path.isfile(f):
            try:
                os.remove(f)
            except OSError:
                pass


def main():
    a = sys.argv[1:]
    if len(a) >= 3 and a[0] == '--rerun':
        pid, test = a[1], a[2]
        release = '--release' in a
        repo = a[a.index('--repo') + 1] if '--repo' in a else '/repo'
        d = _scratch(repo)
        try:
            rc, out = _run(d, test, release, int(os.environ.get('VERIF_SEED', '0') or 0), exact=not test.endswith('_'))
            print(out[-3000:])
            sys.exit(1 if rc else 0)
        finally:
            shutil.rmtree(d, ignore_errors=True)
    print(__doc__)
    sys.exit(2)


if __name__ == '__main__':
    main()
