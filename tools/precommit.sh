#!/bin/sh
# run every claimed check on /repo, validate MANIFEST and evidence; refuse silently-broken commits
cd /verif || exit 2
python3 tools/gen_manifest.py >/dev/null
python3 tools/inventory.py >/dev/null 2>&1
# --relock: accept the current assumption scan and obligation counts as the reviewed baseline (specs/assumptions.lock)
if [ "$1" = "--relock" ]; then python3 tools/weave.py --relock-anchors /repo >/dev/null 2>&1; VERIF_RELOCK=1 ./check all > /tmp/precommit.log 2>&1; fi
./check all > /tmp/precommit.log 2>&1; rc=$?
grep -E "^\[|VIOLATION|UNDECIDED|VACUOUS|KNOWN" /tmp/precommit.log | cut -c1-220
python3-vt - <<'PY'
import json, jsonschema, glob
jsonschema.validate(json.load(open('/verif/MANIFEST.json')), json.load(open('/root/.vp/MANIFEST.schema.json')))
sch = json.load(open('/root/.vp/EVIDENCE.schema.json'))
m = json.load(open('/verif/MANIFEST.json'))
for c in m['checks']:
    ev = json.load(open('/verif/' + c['evidence_file']))
    jsonschema.validate(ev, sch)
    assert ev['coverage']['obligations'] == ev['coverage']['discharged'], c['property_id']
print('manifest + %d evidence files valid' % len(m['checks']))
PY
echo "check all rc=$rc"
exit $rc
