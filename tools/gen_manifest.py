#!/usr/bin/env python3
"""MANIFEST.json is generated from specs/registry.json so that the two cannot drift."""
import json, os
ROOT = os.path.dirname(os.path.dirname(os.path.abspath(__file__)))
reg = json.load(open(os.path.join(ROOT, 'specs', 'registry.json')))
props = [json.loads(l) for l in open(os.path.join(ROOT, 'properties.jsonl'))]
BASE = "cd /repo && cargo nextest run --workspace --no-fail-fast --test-threads 8 --offline || cargo test --workspace --no-fail-fast --offline"
checks = []
for p in props:
    pid = p['id']
    if pid not in reg['properties']:
        continue
    s = reg['properties'][pid]
    checks.append({
        'property_id': pid,
        'quick_cmd': './check %s --tier quick' % pid,
        'thorough_cmd': './check %s --tier thorough' % pid,
        'evidence_file': 'evidence/%s.json' % pid,
        'replay_cmd_template': './check %s --replay {path}' % pid,
        'engine': 'weave+verus' + ('+kani' if s.get('kani') else ''),
        'level_claimed': {'category': 'proof', 'text': s['level_text'], 'design_ref': s.get('design_ref', 'DESIGN.md §4 ' + pid)},
        'level_note': s['level_note'],
        'technique': s.get('technique', 'contract-based deductive verification (Verus on mechanically extracted real functions; Kani function harnesses for bit-level leaves)'),
    })
na = []
for p in props:
    if p['id'] not in reg['properties']:
        na.append({'property_id': p['id'], 'reason': reg.get('not_applicable', {}).get(p['id'], 'no check registered')})
m = {
    'version': 1,
    'setup_cmd': 'python3 tools/setup.py',
    'hooks': {
        'guard': 'none',
        'enable': 'n/a - no hooks in /repo: contracts are woven into text extracted from /repo on every run (Verus) or appended to a scratch copy (Kani)',
        'baseline_off_cmd': BASE,
        'source_commits': [],
        'add_only': True,
    },
    'engines': [
        {'name': 'weave+verus', 'path': 'tools/weave.py, tools/runner.py, specs/', 'serves_properties': [c['property_id'] for c in checks],
         'kind_free_text': 'extracts the real functions from /repo by item path, weaves requires/ensures/invariants, identity-audits, discharges with Verus'},
        {'name': 'kani', 'path': 'tools/kani_runner.py, kani/', 'serves_properties': [pid for pid, s in reg['properties'].items() if s.get('kani')],
         'kind_free_text': 'harnesses appended to a scratch copy of the crate, full-domain symbolic inputs, CBMC back end; concrete playback for replay'},
    ],
    'checks': checks,
    'notes': 'exit 0 = all obligations discharged; 1 = VIOLATION; 2 = undecided (never an alarm). See DESIGN.md.',
    'not_applicable': na,
}
json.dump(m, open(os.path.join(ROOT, 'MANIFEST.json'), 'w'), indent=1)
print('wrote MANIFEST.json with %d checks, %d not_applicable' % (len(checks), len(na)))
