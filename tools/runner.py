#!/usr/bin/env python3
"""check runner: weave units from /repo's working tree, discharge with Verus (and Kani where registered), attribute
failures to properties, write evidence and replay files.

exit 0  every obligation of the property's cone discharged
exit 1  an obligation that is discharged on the unchanged tree failed (VIOLATION line)
exit 2  undecided (lost anchor, unsupported construct, resource limit, tool crash) - never an alarm
"""
import argparse
import concurrent.futures as cf
import hashlib
import json
import os
import re
import subprocess
import sys
import time

HERE = os.path.dirname(os.path.abspath(__file__))
ROOT = os.path.dirname(HERE)
sys.path.insert(0, HERE)
import weave  # noqa: E402
from rustscan import Lost  # noqa: E402

REPO = os.environ.get('VERIF_REPO', '/repo')
BUILD = os.path.join(ROOT, 'build') if REPO == '/repo' else os.path.join(ROOT, 'build', 'scratch-%d' % os.getpid())
if REPO != '/repo':
    import atexit, shutil as _sh
    atexit.register(lambda: _sh.rmtree(BUILD, ignore_errors=True))
CACHE = os.path.join(ROOT, '.cache')
EVID = os.path.join(ROOT, 'evidence') if REPO == '/repo' else os.path.join(ROOT, 'build', 'evidence-scratch')
REPLAYS = os.path.join(ROOT, 'replays')
VERUS_VERSION = '0.2026.09.13'

VERIF_FAIL = [
    ('postcondition not satisfied', 'postcondition'),
    ('unable to prove post-condition of closure', 'closure-postcondition'),
    ('unable to prove pre-condition of closure', 'closure-precondition'),
    ('precondition not satisfied', 'precondition-at-call'),
    ('precondition not met: index in bounds', 'bounds'),
    ('precondition not met', 'precondition-at-call'),
    ('assertion failed', 'assertion'),
    # `assert(P) by (nonlinear_arith) requires Q`: Q could not be shown at the hint - a failed proof step inside the body, like a failed assertion
    ('requires not satisfied', 'assertion'),
    ('possible arithmetic underflow/overflow', 'overflow'),
    ('possible bit shift underflow/overflow', 'shift-overflow'),
    ('possible division by zero', 'div-by-zero'),
    ('invariant not satisfied before loop', 'invariant-init'),
    ('invariant not satisfied at end of loop body', 'invariant-preserved'),
    ('loop invariant not satisfied', 'invariant'),
    ('decreases not satisfied', 'decreases'),
    ('index out of bounds', 'bounds'),
    ('possible index out of bounds', 'bounds'),
    ('unwrap', 'panic(unwrap)'),
    ('panic', 'panic'),
    ('unreachable', 'panic(unreachable)'),
    ('value may be out of range', 'cast-range'),
    ('recommendation not met', None),
    ('could not prove termination', 'decreases'),
    ('failed this', None),
    ('might not be allowed', 'opens-invariant'),
]
RESOURCE = ['Resource limit (rlimit) exceeded', 'rlimit', 'timed out', 'out of memory']


def sh(cmd, **kw):
    """run a command in its own process group; a timeout kills the whole group (verus starts z3 processes as children)"""
    import signal
    timeout = kw.pop('timeout', None)
    p = subprocess.Popen(cmd, stdout=subprocess.PIPE, stderr=subprocess.PIPE, text=True, start_new_session=True, **kw)
    try:
        out, err = p.communicate(timeout=timeout)
    except BaseException:
        try:
            os.killpg(p.pid, signal.SIGKILL)
        except Exception:
            pass
        try:
            p.communicate(timeout=10)
        except Exception:
            pass
        raise
    return subprocess.CompletedProcess(cmd, p.returncode, out, err)


def load_registry():
    return json.load(open(os.path.join(ROOT, 'specs', 'registry.json')))


def parse_diagnostics(stderr):
    """split rustc-style diagnostics; returns list of {level, msg, file, line, text}"""
    out = []
    cur = None
    for ln in stderr.split('\n'):
        m = re.match(r'^(error|warning|note)(\[[A-Z0-9]+\])?: (.*)$', ln)
        if m:
            cur = {'level': m.group(1), 'code': m.group(2) or '', 'msg': m.group(3), 'line': None, 'text': [ln], 'lines': []}
            out.append(cur)
            continue
        if cur is None:
            continue
        cur['text'].append(ln)
        m = re.match(r'^\s*-->\s*(\S+?):(\d+):(\d+)', ln)
        if m:
            if cur['line'] is None:
                cur['line'] = int(m.group(2))
            cur['lines'].append(int(m.group(2)))
        m = re.match(r'^\s*(\d+)\s*\|', ln)
        if m:
            cur['lines'].append(int(m.group(1)))
    return out


def unit_edition(text):
    """a unit may ask for the crate's own edition (2018) with a line `// verif-edition: 2018` (the 2021 prelude's TryFrom collides
    with the model trait in the sparse unit; 2018's assert!-with-message lowers to begin_panic, which Verus rejects, elsewhere)"""
    m = re.search(r'^// verif-edition: (\d{4})\s*$', text, re.M)
    return ['--edition', m.group(1)] if m else []


def run_verus_unit(name, tier, seed, extra_args=()):
    """weave + verify one unit; returns result dict"""
    t0 = time.time()
    res = {'unit': name, 'status': 'ok', 'errors': [], 'undecided': [], 'fns': [], 'verified': 0, 'failed': 0,
           'cache': False, 'verus_ms': 0, 'smt_ms': 0}
    try:
        u = weave.build_unit(REPO, name)
    except (Lost, weave.Undecided) as e:
        res['status'] = 'undecided'
        res['undecided'].append('weave: %s' % e)
        return res
    text = u.text()
    # functions whose proof anchors are lost but whose total variant (R20) is still woven: the unit is undecided unless something in it fails
    for lost_ in getattr(u, 'lost', []):
        res['status'] = 'undecided'
        res['undecided'].append('weave (function rendered as its contract only; its total variant still decides): %s' % lost_)
    os.makedirs(BUILD, exist_ok=True)
    # runs with extra solver options (seed retries, thorough tier) get their own file: they run in parallel with each other
    tag = ''.join(ch for ch in '_'.join(extra_args) if ch.isalnum())[-24:]
    path = os.path.join(BUILD, name + ('_' + tag if tag else '') + '.rs')
    tmp = path + '.%d.tmp' % os.getpid()
    open(tmp, 'w').write(text)
    os.replace(tmp, path)
    res['fns'] = u.fns
    res['items'] = u.items
    res['unit_sha'] = hashlib.sha256((text + VERUS_VERSION + ' '.join(extra_args)).encode()).hexdigest()
    res['path'] = path
    res['nlines'] = text.count('\n')
    # assumption scan
    res['assumption_scan'] = scan_assumptions(text)
    cpath = os.path.join(CACHE, res['unit_sha'] + '.json')
    raw = None
    if os.path.exists(cpath) and not os.environ.get('VERIF_NOCACHE'):
        try:
            raw = json.load(open(cpath))
            res['cache'] = True
        except Exception:
            raw = None
    if raw is None:
        cmd = ['verus', path] + unit_edition(text) + ['--output-json', '--time', '--multiple-errors', '20', '--num-threads', '4'] + list(extra_args)
        try:
            p = sh(cmd, cwd=BUILD, timeout=int(os.environ.get('VERIF_UNIT_TIMEOUT', '1500')))
            raw = {'rc': p.returncode, 'stdout': p.stdout, 'stderr': p.stderr, 'cmd': ' '.join(cmd)}
        except subprocess.TimeoutExpired:
            raw = {'rc': -9, 'stdout': '', 'stderr': 'timed out', 'cmd': ' '.join(cmd)}
        os.makedirs(CACHE, exist_ok=True)
        # only completed verifications are cached (a rejected or truncated unit is re-run next time)
        if raw['rc'] in (0, 1) and '"verification-results"' in raw['stdout']:
            json.dump(raw, open(cpath, 'w'))
    res['cmd'] = raw['cmd']
    res['raw_stderr'] = raw['stderr']
    js = None
    try:
        js = json.loads(raw['stdout'])
    except Exception:
        pass
    if js is None or 'verification-results' not in js:
        res['status'] = 'undecided'
        res['undecided'].append('verus produced no result: ' + raw['stderr'][-2000:])
        return res
    vr = js['verification-results']
    res['verified'] = vr.get('verified', 0)
    res['failed'] = vr.get('errors', 0)
    tm = js.get('times-ms', {})
    res['verus_ms'] = tm.get('total', 0)
    res['smt_ms'] = tm.get('smt', {}).get('smt-run', 0)
    fb = {}
    for mod in tm.get('smt', {}).get('smt-run-module-times', []):
        for f in mod.get('function-breakdown', []):
            fb[f['function']] = {'ms': f.get('time', 0), 'rlimit': f.get('rlimit', 0), 'ok': f.get('success', True), 'mode': f.get('mode:', '')}
    res['breakdown'] = fb
    diags = parse_diagnostics(raw['stderr'])
    hard = [d for d in diags if d['level'] == 'error' and not d['msg'].startswith('aborting due to')]
    if vr.get('encountered-vir-error') or (vr.get('encountered-error') and res['failed'] == 0):
        res['status'] = 'undecided'
        res['undecided'].append('verus rejected the unit (construct outside its subset or type error): ' +
                                '\n'.join('\n'.join(d['text'][:6]) for d in hard[:5]))
        return res
    for d in hard:
        kind = None
        known = False
        for pat, k in VERIF_FAIL:
            if pat in d['msg']:
                known = True
                kind = k
                break
        if any(r in d['msg'] for r in RESOURCE) or any(r in '\n'.join(d['text']) for r in RESOURCE[:1]):
            res['undecided'].append('resource limit: ' + d['msg'])
            if res['status'] == 'ok':
                res['status'] = 'undecided'
            # which function ran out of resources (for the seed retries: a function that is proved under another seed IS proved)
            fn_ = None
            for ln in ([d['line']] + d['lines'] if d['line'] else d['lines']):
                for r in u.fns:
                    if r['rendered'] == 'body' and r['unit_line'] <= ln <= r['unit_end_line']:
                        fn_ = r['fn']
                        break
                if fn_:
                    break
            res.setdefault('rlimit', []).append({'fn': fn_, 'entry': res['undecided'][-1]})
            continue
        if not known:
            res['status'] = 'undecided'
            res['undecided'].append('unclassified verus error: ' + '\n'.join(d['text'][:8]))
            continue
        if kind is None:
            continue
        # attribute to a function through the unit line ranges
        fn = None
        cand = [d['line']] + d['lines'] if d['line'] else d['lines']
        # the body location is the most specific: prefer the last line that falls inside a woven body
        for ln in cand:
            for r in u.fns:
                if r['rendered'] == 'body' and r['unit_line'] <= ln <= r['unit_end_line']:
                    fn = r
                    break
            if fn:
                break
        repo_lines = []
        for ln in cand:
            if ln and 0 < ln <= len(u.linemap) and u.linemap[ln - 1]:
                repo_lines.append('%s:%d' % u.linemap[ln - 1])
        err = {'kind': kind, 'msg': d['msg'], 'unit_line': d['line'], 'fn': fn['fn'] if fn else None, 'fn_line': fn['unit_line'] if fn else None,
               'file': fn['file'] if fn else None, 'repo_lines': repo_lines, 'props': fn['props'] if fn else [],
               'text': '\n'.join(d['text'][:14])}
        res['errors'].append(err)
    if res['errors'] and res['status'] == 'ok':
        res['status'] = 'failed'
    if res['failed'] and not res['errors'] and res['status'] == 'ok':
        res['status'] = 'undecided'
        res['undecided'].append('verus reported errors that could not be parsed')
    res['wall_s'] = time.time() - t0
    return res


SCAN_PATTERNS = ['assume(', 'admit(', 'external_body', 'assume_specification', '#[verifier::external', 'uninterp spec fn']


def scan_assumptions(text):
    found = []
    lines = text.split('\n')
    for i, ln in enumerate(lines):
        st = ln.strip()
        if st.startswith('//'):
            continue
        for pat in SCAN_PATTERNS:
            if pat in ln:
                # name the item it guards: next line that has fn / the same line
                ctx = st
                if pat in ('external_body', '#[verifier::external'):
                    for j in range(i + 1, min(i + 6, len(lines))):
                        m = re.search(r'\bfn\s+([A-Za-z0-9_]+)', lines[j])
                        if m:
                            ctx = 'external_body fn ' + m.group(1)
                            break
                found.append(ctx[:160])
                break
    return sorted(set(found))


def make_canary(text, fns):
    """variant in which every woven body starts with assert(false): each must FAIL (non-vacuous preconditions)"""
    lines = text.split('\n')
    for r in fns:
        if r['rendered'] != 'body':
            continue
        # find the body's opening brace: first line at/after unit_line that ends the spec block `/*@-*/{`
        for i in range(r['unit_line'] - 1, r['unit_end_line']):
            k = lines[i].find('/*@-*/{')
            if k >= 0:
                k += len('/*@-*/{')
                # `hide(...)` must stay the first statement of a body: put the canary after any leading hide statements
                j, kk = i, k
                while True:
                    rest = lines[j][kk:]
                    stripped = rest.replace('/*@+*/', '').strip()
                    if stripped == '' and j + 1 < len(lines) and j < r['unit_end_line']:
                        j += 1; kk = 0
                        continue
                    m = re.match(r'(\s*(?:/\*@\+\*/)?\s*)((?:hide\([^;]*\);\s*)+)', rest)
                    if m:
                        kk += m.end()
                    break
                lines[j] = lines[j][:kk] + ' proof { assert(false); } ' + lines[j][kk:]
                break
    return '\n'.join(lines)


def run_canary(name, res):
    if res['status'] == 'undecided' or 'path' not in res:
        return {'unit': name, 'checked': 0, 'vacuous': []}
    text = open(res['path']).read()
    ctext = make_canary(text, res['fns'])
    sha = hashlib.sha256((ctext + VERUS_VERSION + 'canary').encode()).hexdigest()
    cpath = os.path.join(CACHE, sha + '.canary.json')
    if os.path.exists(cpath) and not os.environ.get('VERIF_NOCACHE'):
        return json.load(open(cpath))
    path = os.path.join(BUILD, name + '_canary.rs')
    open(path, 'w').write(ctext)
    p = sh(['verus', path] + unit_edition(ctext) + ['--multiple-errors', '2', '--num-threads', '4'], cwd=BUILD)
    if 'verification results::' not in p.stdout + p.stderr:
        return {'unit': name, 'checked': 0, 'vacuous': ['<canary variant did not run: %s>' % (p.stderr[-300:])]}
    diags = parse_diagnostics(p.stderr)
    failed_lines = set()
    for d in diags:
        if d['level'] == 'error' and 'assertion failed' in d['msg'] and d['line']:
            failed_lines.add(d['line'])
    bodies = [r for r in res['fns'] if r['rendered'] == 'body']
    vac = []
    n = 0
    for r in bodies:
        n += 1
        if not any(r['unit_line'] <= ln <= r['unit_end_line'] for ln in failed_lines):
            vac.append(r['fn'])
    out = {'unit': name, 'checked': n, 'vacuous': vac}
    if p.returncode in (0, 1):
        os.makedirs(CACHE, exist_ok=True)
        json.dump(out, open(cpath, 'w'))
    return out


# ---------------------------------------------------------------------------------------------------------

def known_findings():
    path = os.path.join(ROOT, 'known-findings.txt')
    known, fixed = [], []
    if os.path.exists(path):
        for ln in open(path):
            ln = ln.strip()
            if not ln or ln.startswith('#'):
                continue
            m = re.match(r'^(finding|fixed): property=(\S+)\s+(.*)$', ln)
            if not m:
                continue
            if m.group(1) == 'finding':
                # finding: property=C09 obligation=<fn>::<kind> <what fails>
                m2 = re.match(r'obligation=(\S+)\s+(.*)$', m.group(3))
                if m2:
                    known.append({'property': m.group(2), 'obligation': m2.group(1), 'what': m2.group(2)})
            else:
                fixed.append({'property': m.group(2), 'what': m.group(3)})
    return known, fixed


def load_lock():
    p = os.path.join(ROOT, 'specs', 'assumptions.lock')
    if not os.path.exists(p) or os.environ.get('VERIF_RELOCK'):
        return None
    return json.load(open(p))


def obligation_name(unit, e):
    fn = (e['fn'] or '<lemma>').replace(' ', '')
    return '%s::%s::%s' % (unit, fn, e['kind'])


def check_property(pid, tier, seed, reg, results_cache):
    t0 = time.time()
    spec = reg['properties'][pid]
    own_units = spec.get('units', [])
    # dep_units: home units of the functions that this property's functions call; only the call closure counts (see below)
    units = own_units + [u for u in spec.get('dep_units', []) if u not in own_units]
    kani_units = spec.get('kani', []) if (tier == 'thorough' or spec.get('kani_quick')) else []
    if tier != 'thorough':
        # the slower bounded harnesses run in the thorough tier only
        kani_units = [k for k in kani_units if k not in spec.get('kani_thorough_only', [])]
    results = []
    with cf.ThreadPoolExecutor(max_workers=int(os.environ.get('VERIF_JOBS', '6'))) as ex:
        futs = {}
        for un in units:
            if un not in results_cache:
                futs[un] = ex.submit(run_verus_unit, un, tier, seed)
        for un, f in futs.items():
            results_cache[un] = f.result()
        # A failed obligation is only reported if it fails under three solver seeds: Verus is sound, so a run that discharges an
        # obligation under ANY seed is a proof of it; a failure that does not reproduce is solver instability, not a violation.
        if not os.environ.get('VERIF_NO_RETRY'):
            rfuts = {}
            def has_result(r_):
                return r_['status'] in ('ok', 'failed') or bool(r_.get('rlimit')) and r_.get('verified', 0) + r_.get('failed', 0) > 0
            for un in units:
                r0 = results_cache[un]
                if (r0['errors'] or r0.get('rlimit')) and has_result(r0) and not r0.get('retried'):
                    for sd in (11, 12):
                        rfuts[(un, sd)] = ex.submit(run_verus_unit, un, tier, seed, ('--smt-option', 'smt.random_seed=%d' % sd))
            retries = {}
            for (un, sd), f in rfuts.items():
                retries.setdefault(un, []).append(f.result())
            for un, rrs in retries.items():
                r0 = results_cache[un]
                r0['retried'] = True
                runs = [r0] + [rr for rr in rrs if has_result(rr)]
                def not_proven(r_):
                    return {e['fn'] for e in r_['errors']} | {x['fn'] for x in r_.get('rlimit', [])}
                # a resource limit that cannot be attributed to a function leaves the unit undecided as it is
                if any(None in not_proven(r_) for r_ in runs):
                    continue
                for fn in sorted(set().union(*[not_proven(r_) for r_ in runs]), key=str):
                    if any(fn not in not_proven(r_) for r_ in runs):
                        # proved under some seed: proved.  Its failures elsewhere are solver instability
                        if any(e['fn'] == fn for e in r0['errors']) or any(x['fn'] == fn for x in r0.get('rlimit', [])):
                            r0.setdefault('unstable', []).append(str(fn))
                        r0['errors'] = [e for e in r0['errors'] if e['fn'] != fn]
                        gone = [x['entry'] for x in r0.get('rlimit', []) if x['fn'] == fn]
                        r0['undecided'] = [x for x in r0['undecided'] if x not in gone]
                        r0['rlimit'] = [x for x in r0.get('rlimit', []) if x['fn'] != fn]
                    elif len(runs) == 3:
                        # proved under no seed.  With a definite failure under at least one of them the obligation is reported (with that
                        # failure); running out of resources under all three stays undecided
                        definite = [e for r_ in runs for e in r_['errors'] if e['fn'] == fn]
                        if definite and not any(e['fn'] == fn for e in r0['errors']):
                            first = [r_ for r_ in runs if any(e['fn'] == fn for e in r_['errors'])][0]
                            r0['errors'].extend(e for e in first['errors'] if e['fn'] == fn)
                        if definite:
                            gone = [x['entry'] for x in r0.get('rlimit', []) if x['fn'] == fn]
                            r0['undecided'] = [x for x in r0['undecided'] if x not in gone]
                            r0['rlimit'] = [x for x in r0.get('rlimit', []) if x['fn'] != fn]
                    else:
                        # a retry gave no result at all: keep what the first run said about this function, but do not call it a violation
                        # on the strength of one seed when it is only a resource limit
                        pass
                # functions that ran out of resources under all three seeds: one more run with six times the default resource limit.  Proved
                # there: proved.  A definite failure there (and proved under no seed): reported with that failure.  Otherwise undecided
                if r0.get('rlimit') and all(x['fn'] is not None for x in r0['rlimit']) and len(runs) == 3:
                    rb = run_verus_unit(un, tier, seed, ('--rlimit', '60'))
                    if has_result(rb):
                        for fn in sorted({x['fn'] for x in r0['rlimit']}, key=str):
                            if fn in {x['fn'] for x in rb.get('rlimit', [])}:
                                continue
                            berrs = [e for e in rb['errors'] if e['fn'] == fn]
                            if berrs and not any(e['fn'] == fn for e in r0['errors']):
                                r0['errors'].extend(berrs)
                            gone = [x['entry'] for x in r0['rlimit'] if x['fn'] == fn]
                            r0['undecided'] = [x for x in r0['undecided'] if x not in gone]
                            r0['rlimit'] = [x for x in r0['rlimit'] if x['fn'] != fn]
                if r0['undecided']:
                    r0['status'] = 'undecided'
                elif r0['errors']:
                    r0['status'] = 'failed'
                else:
                    r0['status'] = 'ok'
        cfuts = {}
        for un in units:
            key = 'canary:' + un
            if key not in results_cache:
                cfuts[key] = ex.submit(run_canary, un, results_cache[un])
        for key, f in cfuts.items():
            results_cache[key] = f.result()
        # thorough: every unit once more under a different solver seed; a proof that does not survive it is unstable
        sfuts = {}
        extra_seeds = []
        if tier == 'thorough':
            s2 = seed if seed else 1
            extra_seeds = [s2, s2 + 1]
            for sd in extra_seeds:
                for un in units:
                    key = 'seed%d:%s' % (sd, un)
                    if key not in results_cache:
                        sfuts[key] = ex.submit(run_verus_unit, un, tier, seed, ('--smt-option', 'smt.random_seed=%d' % sd))
            for key, f in sfuts.items():
                results_cache[key] = f.result()
    unstable = []
    if tier == 'thorough':
        for sd in extra_seeds:
            for un in units:
                a, b = results_cache[un], results_cache['seed%d:%s' % (sd, un)]
                if a['status'] == 'ok' and not a['errors'] and (b['errors'] or b['status'] != 'ok'):
                    unstable.append({'unit': un, 'why': ['proof does not survive smt.random_seed=%d (unstable, not a violation): ' % sd +
                                                         '; '.join((e.get('text') or '')[:120] for e in b['errors'][:3]) + ' '.join(b.get('undecided', []))[:200]]})
    kres = []
    if kani_units:
        import kani_runner
        for kn in kani_units:
            key = 'kani:' + kn
            if key not in results_cache:
                results_cache[key] = kani_runner.run(kn, REPO, tier, seed)
            kres.append(results_cache[key])
    results = [results_cache[u] for u in units]
    canaries = [results_cache['canary:' + u] for u in units]

    known, fixed = known_findings()
    violations = []
    known_seen = []
    undecided = list(unstable)
    fns_evidence = []
    obligations = discharged = 0
    smt_ms = 0
    scan = set()
    rewrites = {}
    cone = []
    # cone of the property: the functions tagged with it (or all functions of a units_all unit, or named by a `cone_also` pattern: the
    # constructors that ESTABLISH the representation invariants the tagged functions are proved relative to), closed under "calls" (by simple
    # name, within the property's units and dep_units): a callee whose own contract fails breaks the caller's proof assumptions
    def simple(fnname):
        return fnname.split('::')[-1].strip()
    allf = [(r['unit'], f) for r in results for f in r['fns']]
    by_name = {}
    for un, f in allf:
        by_name.setdefault(simple(f['fn']), []).append((un, f))
    in_cone = set()
    work = []
    for un, f in allf:
        if pid in f['props'] or un in spec.get('units_all', []) or any(re.search(rx, f['fn']) for rx in spec.get('cone_also', [])):
            k = (f['fn'], f['file'])
            if k not in in_cone:
                in_cone.add(k)
                work.append(f)
    direct = set(in_cone)
    def container(fnname):
        return fnname.rsplit('::', 1)[0].strip() if '::' in fnname else ''

    def resolves(f, call, g):
        gc = container(g['fn'])
        if '::' in call:
            q = call.split('::')[0]
            if q == 'Self':
                fc = container(f['fn'])
                # same implementing type (the last type name of the container header)
                return bool(gc) and type_of(gc) == type_of(fc)
            if q[:1].islower():
                return not gc and os.path.basename(g['file']) in (q + '.rs',)
            return bool(gc) and re.search(r'(?<![A-Za-z0-9_])' + re.escape(q) + r'(?![A-Za-z0-9_])', gc) is not None
        if call.startswith('.'):
            return bool(gc)
        return not gc and g['file'] == f['file']

    def type_of(c):
        m = re.findall(r'[A-Z][A-Za-z0-9_]*', re.sub(r'<[^<>]*>', '', c.split(' for ')[-1]))
        return m[-1] if m else c

    while work:
        f = work.pop()
        for call in f.get('calls', []):
            nm = call.split('::')[-1].lstrip('.')
            for un, g in by_name.get(nm, []):
                k = (g['fn'], g['file'])
                if k not in in_cone and resolves(f, call, g):
                    in_cone.add(k)
                    work.append(g)
    lock = load_lock()
    for r in results:
        scan.update('%s: %s' % (r['unit'], a) for a in r.get('assumption_scan', []))
        if lock is not None and r['status'] != 'undecided':
            extra = sorted(set(r.get('assumption_scan', [])) - set(lock.get('units', {}).get(r['unit'], [])))
            if extra:
                undecided.append({'unit': r['unit'], 'why': ['assumption scan differs from specs/assumptions.lock (new, unreviewed assumption): ' + '; '.join(extra)[:600]]})
        smt_ms += r.get('smt_ms', 0)
        if r['status'] == 'undecided':
            # undecided only matters if the unit carries functions of this property
            undecided.append({'unit': r['unit'], 'why': r['undecided']})
        failed_fns = {}
        lemma_fail = []
        for e in r['errors']:
            if e['fn'] is None:
                lemma_fail.append(e)
            else:
                failed_fns.setdefault((e['fn'], e.get('fn_line')), []).append(e)
        if lemma_fail:
            undecided.append({'unit': r['unit'], 'why': ['specification-side lemma failed (not repository code): ' + e['text'][:400] for e in lemma_fail]})
        for f in r['fns']:
            if (f['fn'], f['file']) not in in_cone:
                continue
            for k, v in f['rewrites'].items():
                rewrites[k] = rewrites.get(k, 0) + v
            if f['rendered'] == 'body':
                obligations += 1
                st = 'P'
                # (by record, not by name: the same source function can be woven twice in a unit - total variants, R24)
                errs = failed_fns.get((f['fn'], f.get('unit_line')), []) or [e for k_, v_ in failed_fns.items() if k_[0] == f['fn'] and k_[1] is None for e in v_]
                if r['status'] == 'undecided' and not errs:
                    st = 'undecided'
                elif errs and f.get('new_override'):
                    # R24: a function that did not exist on the tree the proofs were written for (a new override of a provided trait method),
                    # woven without proof hints.  If it verifies against the trait contract it is proved; if it does not, that is an
                    # undischarged obligation that never passed before - undecided, not a violation
                    st = 'undecided'
                    undecided.append({'unit': r['unit'], 'why': ['new override %s does not verify against the contract of the trait method without a proof (undischarged, never passed before): %s'
                                                                  % (f['fn'], '; '.join(e['msg'] for e in errs)[:300])]})
                elif errs:
                    st = 'FAILED'
                    for e in errs:
                        ob = obligation_name(r['unit'], e)
                        hit = [k for k in known if k['property'] == pid and k['obligation'] == ob]
                        if hit:
                            known_seen.append((ob, hit[0]['what']))
                        else:
                            violations.append({'obligation': ob, 'fn': f['fn'], 'file': f['file'], 'kind': e['kind'],
                                               'repo_lines': e['repo_lines'], 'verifier': 'verus', 'message': e['text']})
                else:
                    discharged += 1
                cone.append({'fn': f['fn'], 'file': '%s:%d' % (f['file'], f['line']), 'status': st, 'backend': 'verus', 'unit': r['unit'],
                             'sha': f['sha'], 'via': 'property tag' if (f['fn'], f['file']) in direct else 'call closure'})
            elif f['rendered'] == 'stub':
                cone.append({'fn': f['fn'], 'file': '%s:%d' % (f['file'], f['line']), 'status': 'contract-only-in-this-unit',
                             'backend': 'verus', 'unit': r['unit']})
    # vacuity
    vac = []
    for c in canaries:
        for fn in c.get('vacuous', []):
            vac.append('%s::%s' % (c['unit'], fn))
    for k in kres:
        obligations += k['obligations']
        discharged += k['discharged']
        for v in k['violations']:
            if pid in v.get('props', [pid]):
                hit = [kk for kk in known if kk['property'] == pid and kk['obligation'] == v['obligation']]
                if hit:
                    known_seen.append((v['obligation'], hit[0]['what']))
                else:
                    violations.append(v)
        if k['status'] == 'undecided':
            undecided.append({'unit': 'kani:' + k['unit'], 'why': k['undecided']})
        cone.extend(k['cone'])
        scan.update(k.get('assumptions', []))

    # status per function: a function is P overall if its body verified in some unit
    proved = {(c['fn'], c['file']) for c in cone if c['status'] in ('P', 'K')}
    assumed = sorted({'%s (%s)' % (c['fn'], c['file']) for c in cone
                      if c['status'] == 'contract-only-in-this-unit' and (c['fn'], c['file']) not in proved})
    rc = 0
    replay_path = None
    lines = []
    if violations:
        rc = 1
        os.makedirs(REPLAYS, exist_ok=True)
        replay_path = os.path.join(REPLAYS, '%s-%s.json' % (pid, time.strftime('%Y%m%dT%H%M%S')))
        replay = {'property': pid, 'failed_obligations': violations, 'tier': tier, 'seed': seed,
                  'repo_head': sh(['git', '-C', REPO, 'rev-parse', 'HEAD']).stdout.strip(),
                  'repo_dirty': sh(['git', '-C', REPO, 'status', '--porcelain']).stdout,
                  'concrete_input': None}
        # try to find a concrete failing input with the property's replayer (never used to decide)
        suffix = ' no-failing-input-found'
        try:
            import replayer
            found = replayer.search(pid, violations, REPO, seed)
            if found:
                replay['concrete_input'] = found
                suffix = ''
        except Exception as ex:  # noqa
            replay['replayer_error'] = repr(ex)
        for v in violations:
            if v.get('concrete'):
                replay['concrete_input'] = v['concrete']
                suffix = ''
        json.dump(replay, open(replay_path, 'w'), indent=1)
        for v in violations:
            lines.append('  failed obligation: %s  [%s] %s' % (v['obligation'], v['verifier'], ' '.join(v.get('repo_lines', [])[:3])))
        lines.append('VIOLATION property=%s replay=%s%s' % (pid, replay_path, suffix))
    elif undecided or vac:
        rc = 2
    if lock is not None and rc == 0 and obligations < lock.get('min_obligations', {}).get(pid, 1):
        undecided.append({'unit': '*', 'why': ['only %d obligations were generated, the lock records %d: the check would be (partly) vacuous' % (obligations, lock['min_obligations'][pid])]})
        rc = 2
    for ob, what in sorted(set(known_seen)):
        lines.append('KNOWN-FINDING: property=%s %s (%s)' % (pid, what, ob))

    wall = time.time() - t0
    samples = []
    for c in cone[:6]:
        samples.append({'obligation': '%s::%s::{postcondition,preconditions-at-calls,bounds,overflow,invariants}' % (c['unit'], c['fn'].replace(' ', '')),
                        'at': c['file'], 'status': c['status']})
    ev = {
        'property_id': pid,
        'tier': tier,
        'seed': seed,
        'level': 'proof',
        'coverage': {
            'obligations': obligations,
            'discharged': discharged,
            'obligation_unit': 'one obligation = the full verification condition of one function body (postconditions, callee preconditions, bounds, overflow, loop invariants, termination) or one Kani harness',
            # (a result reused from the cache carries the command of the run that produced it, possibly on a scratch tree with the identical unit text)
            'checker_cmd': '; '.join(sorted({re.sub(r'build/scratch-\d+/', 'build/', r.get('cmd', '')) for r in results if r.get('cmd')}))[:1500] or 'verus <unit>.rs --output-json --time',
            'trusted_base': sorted(scan) + ['assumed contract (body not verified in any unit of this property): ' + a for a in assumed] + spec.get('trusted', []),
            'functions_under_contract': cone,
            'assumed_contracts': assumed,
            'extraction': {'rewrites_applied': rewrites, 'rewrite_meaning': {k: weave.REWRITES_DOC.get(k, '') for k in rewrites},
                           'identity_audit': 'passed for every woven item (a failure makes the unit undecided)'},
            'unstable_proofs': sorted({'%s::%s' % (x['unit'], fn) for x in results for fn in x.get('unstable', [])}),
            'canaries': {'bodies_checked': sum(c.get('checked', 0) for c in canaries), 'vacuous': vac},
            'bounded_units': [b for k in kres for b in k.get('bounded', [])],
            'solver_ms': smt_ms,
            'units': [{'unit': r['unit'], 'status': r['status'], 'verified_bodies_total': r['verified'], 'errors': r['failed'],
                       'cache_hit': r['cache'], 'verus_ms': r['verus_ms']} for r in results] +
                     [{'unit': 'kani:' + k['unit'], 'status': k['status'], 'harnesses': k['obligations'], 'wall_s': k['wall_s']} for k in kres],
            'samples': samples,
            'undecided': undecided,
            'known_findings_seen': [ob for ob, _ in known_seen],
        },
        'assumptions': spec.get('assumptions', []) + ['every item listed under coverage.trusted_base'],
        'wall_s': round(wall, 2),
        'violations': len(violations),
    }
    os.makedirs(EVID, exist_ok=True)
    json.dump(ev, open(os.path.join(EVID, pid + '.json'), 'w'), indent=1)
    return rc, lines, ev, undecided, vac


def main():
    ap = argparse.ArgumentParser()
    ap.add_argument('prop')
    ap.add_argument('--tier', default=os.environ.get('VERIF_TIER', 'quick'))
    ap.add_argument('--replay')
    args = ap.parse_args()
    seed = int(os.environ.get('VERIF_SEED', '0') or 0)
    reg = load_registry()
    if args.replay:
        rp = json.load(open(args.replay))
        print(json.dumps(rp, indent=1)[:6000])
        ci = rp.get('concrete_input')
        for v in rp.get('failed_obligations', []):
            c = v.get('concrete') or {}
            if c.get('kani_playback_test') and v['obligation'].startswith('kani:'):
                import kani_runner
                unit = v['obligation'][5:].split('::')[0]
                out = kani_runner.replay(unit, c['kani_playback_test'], REPO)
                print(json.dumps(out, indent=1))
                if out.get('exit'):
                    print('VIOLATION property=%s replay=%s' % (rp['property'], args.replay))
                    sys.exit(1)
                sys.exit(0)
        if ci and ci.get('cmd'):
            p = subprocess.run(ci['cmd'], shell=True)
            if p.returncode:
                print('VIOLATION property=%s replay=%s' % (rp['property'], args.replay))
            sys.exit(1 if p.returncode else 0)
        # no concrete input: re-run the check, the named obligations are re-evaluated on the current tree
    props = sorted(reg['properties']) if args.prop == 'all' else [args.prop]
    cache = {}
    worst = 0
    relock = {'units': {}, 'min_obligations': {}} if (os.environ.get('VERIF_RELOCK') and args.prop == 'all' and REPO == '/repo') else None
    for pid in props:
        if pid not in reg['properties']:
            print('property %s is not claimed (see MANIFEST not_applicable)' % pid)
            sys.exit(2)
        rc, lines, ev, undecided, vac = check_property(pid, args.tier, seed, reg, cache)
        cov = ev['coverage']
        if relock is not None:
            relock['min_obligations'][pid] = cov['obligations']
            for k, v in cache.items():
                if isinstance(v, dict) and 'assumption_scan' in v:
                    relock['units'][v['unit']] = v['assumption_scan']
        print('[%s] tier=%s obligations=%d discharged=%d violations=%d undecided=%d wall=%.1fs' %
              (pid, args.tier, cov['obligations'], cov['discharged'], ev['violations'], len(undecided), ev['wall_s']))
        for u in undecided:
            print('  UNDECIDED %s: %s' % (u['unit'], ' | '.join(w[:600] for w in u['why'])))
        for v in vac:
            print('  VACUOUS (contradictory precondition?): %s' % v)
        for ln in lines:
            print(ln)
        if rc == 1 or (rc == 2 and worst == 0):
            worst = rc
    if relock is not None and worst == 0:
        json.dump(relock, open(os.path.join(ROOT, 'specs', 'assumptions.lock'), 'w'), indent=1, sort_keys=True)
        print('wrote specs/assumptions.lock')
    sys.exit(worst)


if __name__ == '__main__':
    main()
