#!/usr/bin/env python3
"""Kani side: copy /repo to a scratch directory outside /repo and /verif, append the harness module to the source
file it belongs to, run `cargo kani --lib`, parse per-harness results, replay failures with concrete playback,
delete the copy.  The BMI2 arm of bits::select is verified from its mechanical extraction (rewrite R6)."""
import hashlib
import json
import os
import re
import shutil
import subprocess
import sys
import tempfile
import time

HERE = os.path.dirname(os.path.abspath(__file__))
ROOT = os.path.dirname(HERE)
sys.path.insert(0, HERE)
from rustscan import Source, Lost  # noqa: E402

CACHE = os.path.join(ROOT, '.cache')
KANI_VERSION = 'kani-0.68.0'


# failed-check descriptions that mean an access outside an object (everything else a `safety_only` harness reports is a panic)
MEMSAFE = re.compile(r'dereference failure|pointer (arithmetic|relation|NULL|outside)|unsafe precondition|Rust intrinsic assumption failed|invalid pointer|deallocated|dead object|memcpy|memmove|memset|misaligned|out of bounds.*pointer', re.I)

MEM_LIMIT = int(os.environ.get('VERIF_KANI_MEM_GB', '24')) * 1024 ** 3


def _limits():
    import resource
    # CBMC can exhaust memory on failing variants of a harness; a run that hits the limit is undecided, never an alarm
    resource.setrlimit(resource.RLIMIT_AS, (MEM_LIMIT, MEM_LIMIT))


def sh(cmd, **kw):
    """run a command in its own process group; on a timeout the WHOLE group is killed (cargo-kani starts cbmc as a grandchild: killing only
    the child used to leave an orphaned cbmc behind that kept a core and up to the memory limit for hours)"""
    import signal
    timeout = kw.pop('timeout', None)
    p = subprocess.Popen(cmd, stdout=subprocess.PIPE, stderr=subprocess.STDOUT, text=True, preexec_fn=_limits, start_new_session=True, **kw)
    try:
        out, _ = p.communicate(timeout=timeout)
    except subprocess.TimeoutExpired:
        try:
            os.killpg(p.pid, signal.SIGKILL)
        except Exception:
            pass
        try:
            p.communicate(timeout=10)
        except Exception:
            pass
        raise
    except BaseException:
        try:
            os.killpg(p.pid, signal.SIGKILL)
        except Exception:
            pass
        raise
    return subprocess.CompletedProcess(cmd, p.returncode, out, None)


def src_digest(repo):
    h = hashlib.sha256()
    for base, _, files in sorted(os.walk(os.path.join(repo, 'src'))):
        for f in sorted(files):
            if f.endswith('.rs'):
                p = os.path.join(base, f)
                h.update(p[len(repo):].encode())
                h.update(open(p, 'rb').read())
    for f in ('Cargo.toml',):
        h.update(open(os.path.join(repo, f), 'rb').read())
    return h.hexdigest()


def make_scratch(repo):
    d = tempfile.mkdtemp(prefix='verif-kani-')
    shutil.copytree(os.path.join(repo, 'src'), os.path.join(d, 'src'))
    for f in ('Cargo.toml', 'Cargo.lock'):
        if os.path.exists(os.path.join(repo, f)):
            shutil.copy(os.path.join(repo, f), d)
    # .cargo/config.toml (target-cpu=native) is deliberately not copied: Kani overrides rustflags anyway
    return d


def parse_kani(out, names):
    """per-harness result from the (possibly interleaved) output of cargo kani -j"""
    res = {}
    thread = {}
    cur = None
    cur_thread = None
    block = {}
    for ln in out.split('\n'):
        m = re.match(r'^(?:Thread (\d+): )?Checking harness (\S+?)\.\.\.', ln)
        if m:
            t = m.group(1) or '0'
            thread[t] = m.group(2)
            cur_thread = t
            block.setdefault(m.group(2), [])
            continue
        m = re.match(r'^Thread (\d+):\s*$', ln)
        if m:
            cur_thread = m.group(1)
            continue
        if cur_thread is not None and cur_thread in thread:
            block[thread[cur_thread]].append(ln)
    for h, lines in block.items():
        txt = '\n'.join(lines)
        short = h.split('::')[-1]
        st = 'undecided'
        if 'VERIFICATION:- SUCCESSFUL' in txt:
            st = 'ok'
        elif 'VERIFICATION:- FAILED' in txt:
            st = 'failed'
        m = re.search(r'\*\* (\d+) of (\d+) failed', txt)
        checks = int(m.group(2)) if m else 0
        failed_checks = re.findall(r'Failed Checks: (.*)', txt)
        cov = re.search(r'\*\* (\d+) of (\d+) cover properties satisfied', txt)
        unwind = 'unwinding assertion' in txt and st == 'failed'
        res[short] = {'status': st, 'checks': checks, 'failed_checks': failed_checks[:40], 'text': txt[-3000:],
                      'cover_ok': (cov is None) or cov.group(1) == cov.group(2), 'unwind_fail': unwind}
    return res


PDEP_MODEL = '''
// T: PDEP semantics, Intel SDM vol. 2B "PDEP - Parallel Bits Deposit" operation pseudo-code
fn _pdep_u64(a: u64, mask: u64) -> u64 {
    let mut dest: u64 = 0; let mut k: u32 = 0; let mut m: u32 = 0;
    while m < 64 { if (mask >> m) & 1 == 1 { dest |= ((a >> k) & 1) << m; k += 1; } m += 1; }
    dest
}
'''


def bmi2_unit(repo):
    """R6: extract the BMI2 arm of bits::select mechanically"""
    s = Source(os.path.join(repo, 'src', 'bits.rs'))
    a, o, c = s.find_fn('-', 'select')
    sig = s.text[a:o]
    body = s.text[o:c + 1]
    m = re.search(r'#\[cfg\(all\(target_arch\s*=\s*"x86_64",\s*target_feature\s*=\s*"bmi2"\)\)\]\s*\{', body)
    if not m:
        raise Lost('bmi2 arm of bits::select not found')
    bo = m.end() - 1
    depth = 0
    for i in range(bo, len(body)):
        if body[i] == '{':
            depth += 1
        elif body[i] == '}':
            depth -= 1
            if depth == 0:
                be = i
                break
    arm = body[bo:be + 1].replace('core::arch::x86_64::_pdep_u64', '_pdep_u64')
    return PDEP_MODEL + sig + arm + '''
#[cfg(kani)]
#[kani::proof]
#[kani::unwind(66)]
fn select_bmi2_spec() {
    let n: u64 = kani::any();
    let rank: usize = kani::any();
    kani::assume(rank < n.count_ones() as usize);
    let r = unsafe { select(n, rank) };
    assert!(r < 64);
    assert!((n >> r) & 1 == 1);
    let low = if r >= 64 { !0u64 } else { (1u64 << r) - 1 };
    assert!((n & low).count_ones() as usize == rank);
}
fn main() {}
'''


def run(unit_name, repo, tier, seed):
    t0 = time.time()
    units = json.load(open(os.path.join(ROOT, 'kani', 'units.json')))
    spec = units[unit_name]
    harness_text = open(os.path.join(ROOT, 'kani', spec['harness_file'])).read() if spec.get('harness_file') else ''
    names = [h['name'] for h in spec['harnesses']]
    res = {'unit': unit_name, 'status': 'ok', 'obligations': 0, 'discharged': 0, 'violations': [], 'undecided': [],
           'cone': [], 'bounded': [], 'assumptions': [], 'wall_s': 0}
    key = hashlib.sha256((src_digest(repo) + harness_text + json.dumps(spec, sort_keys=True) + KANI_VERSION).encode()).hexdigest()
    cpath = os.path.join(CACHE, 'kani-' + key + '.json')
    parsed = None
    if os.path.exists(cpath) and not os.environ.get('VERIF_NOCACHE'):
        parsed = json.load(open(cpath))
    scratch = None
    try:
        if parsed is None:
            scratch = make_scratch(repo)
            env = dict(os.environ, CARGO_NET_OFFLINE='true')
            parsed = {}
            if spec.get('standalone') == 'bmi2':
                try:
                    text = bmi2_unit(repo)
                except Lost as e:
                    res['status'] = 'undecided'
                    res['undecided'].append(str(e))
                    return res
                f = os.path.join(scratch, 'sel_bmi2.rs')
                open(f, 'w').write(text)
                p = sh(['kani', f, '--harness', 'select_bmi2_spec'], cwd=scratch, env=env, timeout=1800)
                parsed = parse_kani(p.stdout, names)
                if not parsed:
                    parsed = {'select_bmi2_spec': {'status': 'undecided', 'checks': 0, 'failed_checks': [], 'text': p.stdout[-3000:], 'cover_ok': True, 'unwind_fail': False}}
            else:
                src = os.path.join(scratch, spec['src'])
                if not os.path.exists(src):
                    res['status'] = 'undecided'
                    res['undecided'].append('source file missing: ' + spec['src'])
                    return res
                open(src, 'a').write('\n' + harness_text)
                cmd = ['cargo', 'kani', '--lib', '-j', str(min(8, len(names))), '--output-format', 'terse'] + spec.get('flags', [])
                for n in names:
                    cmd += ['--harness', n]
                try:
                    p = sh(cmd, cwd=scratch, env=env, timeout=int(os.environ.get('VERIF_KANI_TIMEOUT', '900')))
                    out = p.stdout
                except subprocess.TimeoutExpired as e:
                    out = (e.stdout or '') if isinstance(e.stdout, str) else ''
                    res['undecided'].append('kani timed out')
                parsed = parse_kani(out, names)
                if 'error: could not compile' in out or 'error[E' in out:
                    res['status'] = 'undecided'
                    res['undecided'].append('harness module does not compile against the current tree: ' + '\n'.join(
                        l for l in out.split('\n') if l.startswith('error'))[:1500])
                # concrete playback for failing harnesses: the counterexample, re-executed natively on the real code
                for n in names:
                    r = parsed.get(n)
                    if r and r['status'] == 'failed' and not r['unwind_fail']:
                        try:
                            pp = sh(['cargo', 'kani', '--lib', '--harness', n, '-Z', 'concrete-playback', '--concrete-playback=print',
                                     '--output-format', 'terse'] + spec.get('flags', []), cwd=scratch, env=env, timeout=600)
                        except subprocess.TimeoutExpired:
                            r['playback_error'] = 'concrete playback timed out'
                            continue
                        blocks = re.findall(r'```\s*\n(.*?)```', pp.stdout, flags=re.S)
                        blocks = [b for b in blocks if 'Check for `cover`' not in b] or blocks
                        if blocks:
                            test = blocks[0]
                            r['playback_test'] = test
                            r['native'] = native_replay(scratch, spec['src'], test, env)
            os.makedirs(CACHE, exist_ok=True)
            if res['status'] == 'ok' and not res['undecided']:
                json.dump(parsed, open(cpath, 'w'))
    finally:
        if scratch:
            shutil.rmtree(scratch, ignore_errors=True)
    for h in spec['harnesses']:
        r = parsed.get(h['name'])
        if r and h.get('safety_only') and r['status'] == 'failed' and not r['unwind_fail']:
            # C08 harnesses over arbitrary arguments: a panic (failed assertion / checked index / overflow check) is documented behaviour and
            # ends the path; only memory-safety checks count
            mem = [c for c in r['failed_checks'] if MEMSAFE.search(c)]
            r = dict(r, ignored_panic_checks=[c for c in r['failed_checks'] if not MEMSAFE.search(c)][:6])
            if mem:
                r['failed_checks'] = mem
            elif len(r['failed_checks']) < 10:
                r['status'] = 'ok'
        res['obligations'] += 1
        entry = {'fn': ', '.join(h['fns']), 'file': spec.get('src', 'src/bits.rs'), 'unit': 'kani:' + unit_name,
                 'backend': 'kani/cbmc', 'harness': h['name'], 'domain': h.get('domain', ''), 'checks': r['checks'] if r else 0}
        if r is None or r['status'] == 'undecided':
            entry['status'] = 'undecided'
            res['status'] = 'undecided'
            res['undecided'].append('no result for harness %s: %s' % (h['name'], (r or {}).get('text', '')[-500:]))
        elif r['status'] == 'ok':
            if not r['cover_ok']:
                entry['status'] = 'undecided'
                res['status'] = 'undecided'
                res['undecided'].append('vacuity guard: cover property of %s not satisfied' % h['name'])
            else:
                entry['status'] = 'K' if h.get('complete') else 'B'
                if h.get('complete'):
                    res['discharged'] += 1
                else:
                    res['obligations'] -= 1
                    res['bounded'].append({'harness': h['name'], 'bound': h.get('bound', ''), 'result': 'passed'})
        else:
            if r['unwind_fail']:
                entry['status'] = 'undecided'
                res['status'] = 'undecided'
                res['undecided'].append('unwinding assertion failed in %s (loop bound no longer matches the code)' % h['name'])
            else:
                entry['status'] = 'FAILED'
                v = {'obligation': 'kani:%s::%s' % (unit_name, h['name']), 'fn': ', '.join(h['fns']), 'file': spec.get('src', ''),
                     'kind': 'kani-assertion', 'repo_lines': [], 'verifier': 'kani', 'props': h['props'],
                     'message': '\n'.join(r['failed_checks']) + '\n' + r['text'][-1500:]}
                if r.get('playback_test'):
                    v['concrete'] = {'kani_playback_test': r['playback_test'], 'native_replay': r.get('native'),
                                     'cmd': None}
                res['violations'].append(v)
        res['cone'].append(entry)
    res['assumptions'] = ['kani: CBMC models of count_ones/leading_zeros/trailing_zeros/reverse_bits intrinsics', 'kani: termination not checked'] + spec.get('assumptions', [])
    res['wall_s'] = round(time.time() - t0, 1)
    return res


def native_replay(scratch, src_rel, test, env):
    """run Kani's concrete-playback unit test natively against the scratch copy of the real crate"""
    try:
        src = os.path.join(scratch, src_rel)
        text = open(src).read()
        # put the generated test inside the harness module
        idx = text.rfind('}')
        text = text[:idx] + '\n' + test + '\n}\n'
        open(src, 'w').write(text)
        m = re.search(r'fn (kani_concrete_playback_\w+)', test)
        name = m.group(1) if m else 'kani_concrete_playback'
        p = sh(['cargo', 'kani', 'playback', '-Z', 'concrete-playback', '--lib', '--', name], cwd=scratch, env=env, timeout=900)
        tail = p.stdout[-1500:]
        return {'cmd': 'cargo kani playback -Z concrete-playback --lib -- ' + name, 'exit': p.returncode,
                'outcome': 'test failed natively (counterexample reproduced on the real code)' if p.returncode != 0 else 'test passed natively',
                'output_tail': tail}
    except Exception as e:  # noqa
        return {'error': repr(e)}


def replay(unit_name, test, repo):
    """re-execute a recorded Kani counterexample natively against the current tree"""
    units = json.load(open(os.path.join(ROOT, 'kani', 'units.json')))
    spec = units[unit_name]
    scratch = make_scratch(repo)
    try:
        src = os.path.join(scratch, spec['src'])
        open(src, 'a').write('\n' + open(os.path.join(ROOT, 'kani', spec['harness_file'])).read())
        return native_replay(scratch, spec['src'], test, dict(os.environ, CARGO_NET_OFFLINE='true'))
    finally:
        shutil.rmtree(scratch, ignore_errors=True)


if __name__ == '__main__':
    r = run(sys.argv[1], sys.argv[2] if len(sys.argv) > 2 else '/repo', 'thorough', 0)
    print(json.dumps(r, indent=1)[:6000])
