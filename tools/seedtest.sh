#!/bin/sh
# usage: tools/seedtest.sh <seed dir> <property ids...>   — applies the seed to a scratch copy of /repo and runs the checks on it
seed=$(realpath "$1"); shift
d=$(mktemp -d /tmp/seedrun-XXXX)
cp -r /repo/src /repo/Cargo.toml /repo/Cargo.lock "$d"/ 2>/dev/null
(cd "$d" && git init -q . && git add -A && git commit -qm base >/dev/null && git apply "$seed/patch.diff") || { echo "patch does not apply"; rm -rf "$d"; exit 3; }
rc=0
for p in "$@"; do
  VERIF_REPO="$d" /verif/check "$p" --tier ${TIER:-quick} | grep -v "^  failed obligation" | cut -c1-250
done
rm -rf "$d"
