#!/bin/sh
# usage: tools/commit.sh "message"   — relock, run every check, validate; commit only when everything is green
cd /verif || exit 2
tools/precommit.sh --relock > /tmp/commit.log 2>&1; rc=$?
grep -v "^WARNING" /tmp/commit.log | tail -4
if [ $rc -ne 0 ]; then echo "NOT COMMITTED (rc=$rc)"; grep -E "UNDECIDED|VIOLATION|VACUOUS" -A1 /tmp/commit.log | cut -c1-300 | head -20; exit $rc; fi
git add -A && git commit -qm "$1" && git log --oneline | head -1
